(* C12 under the wrapped deployment — one-time passwords and 2FA recovery codes are consumed by the
   login they enable and NEVER work again, over whole histories of the system as mounted: [wrun]
   (module routes behind a global remember.Middleware, cfg [c_wrap_remember]).  The chain of
   Props/C12d.v carried over (Proofs/NeverAgainW.v).

   What the wrapper changes.  /otp/login and the two 2FA validation pages are module routes: the
   wrapper runs first, and for a request that carries a remember cookie and no session identity it may
   log the cookie's owner in (half-authenticated) before the handler runs.  So "no session key other
   than a flash message changes" cannot hold literally; what holds is
     sess_untouched_but (remembered C w req) w w'
   - no key other than the flash messages, the identity and the half-auth mark differs in any jar
   (nobody is parked for a second factor), and an identity that appears is that of an account for
   which the request carried a remember cookie whose token is stored ([remembered]): the wrapper
   wrote it, not the one-time password.  When the wrapper has nothing to do ([wrapper_idle]: no
   remember cookie, or a session that already names somebody) the unwrapped conclusions hold as they
   are.  Dually the ACCEPTING request must have been accepted by the handler, not by the wrapper:
   [accepted_for_w] - parked for a second factor, or newly named while the request carried no
   remember cookie of U with a stored token.
   The storage side ([otp_hits] never grow, [otp_absent] / [otp_unique] / [rc_absent] preserved) is
   unchanged: the logic [ow] covers the wrapper prefix ([ow_serve_top]). *)
From AB Require Import World.Step World.Exec Proofs.MonadInv Proofs.StoreLogic Proofs.OneTimeProofs Proofs.TwoFactorProofs
  Proofs.OnceProofs Proofs.StoreShape Proofs.Wrapped Proofs.LockWorldW Proofs.OneTimeHistory Proofs.NeverAgainW.
Open Scope Z_scope.

(* ---- 1. vocabulary -------------------------------------------------------------------------------- *)
Theorem c12w_remembered_reading : forall C w req V,
  remembered C w req V <->
  exists cookie raw,
    alookup k_rm (jar_get (q_browser req) (w_cook w)) = Some cookie /\ b64url_dec cookie = Some raw /\
    rm_parse_pid raw = Some V /\ bmem (b64std_enc (sha C raw)) (rmlookup V (s_rm (w_st w))) = true.
Proof. reflexivity. Qed.
Print Assumptions c12w_remembered_reading.

Theorem c12w_sess_untouched_but_reading : forall G w w',
  sess_untouched_but G w w' <->
  (forall b k, k <> k_flash_ok -> k <> k_flash_err -> k <> k_uid -> k <> k_halfauth ->
     alookup k (jar_get b (w_sess w')) = alookup k (jar_get b (w_sess w))) /\
  (forall b V, alookup k_uid (jar_get b (w_sess w')) = Some V -> alookup k_uid (jar_get b (w_sess w)) = Some V \/ G V).
Proof. reflexivity. Qed.
Print Assumptions c12w_sess_untouched_but_reading.

Theorem c12w_accepted_for_w_reading : forall C U w req w',
  accepted_for_w C U w req w' <->
  exists b k, (k = k_uid \/ k = k_totp_pending \/ k = k_sms_pending) /\
    alookup k (jar_get b (w_sess w')) = Some U /\ alookup k (jar_get b (w_sess w)) <> Some U /\
    (k = k_uid -> ~ remembered C w req U).
Proof. reflexivity. Qed.
Print Assumptions c12w_accepted_for_w_reading.

Theorem c12w_refused_for_w_reading : forall C U w req w',
  refused_for_w C U w req w' <->
  forall b k, (k = k_uid \/ k = k_totp_pending \/ k = k_sms_pending) ->
    alookup k (jar_get b (w_sess w')) = Some U ->
    alookup k (jar_get b (w_sess w)) = Some U \/ (k = k_uid /\ remembered C w req U).
Proof. reflexivity. Qed.
Print Assumptions c12w_refused_for_w_reading.

Theorem c12w_wrapper_idle_reading : forall E,
  wrapper_idle E <-> alookup k_rm (e_cook E) = None \/ bempty (aget k_uid (e_sess E)) = false.
Proof. reflexivity. Qed.
Print Assumptions c12w_wrapper_idle_reading.

(* an idle wrapper: the router as mounted is the plain one *)
Theorem c12w_idle_is_step : forall C cfg w req O,
  wrapper_idle (mkEnv C cfg O req (jar_get (q_browser req) (w_cook w)) (jar_get (q_browser req) (w_sess w))) ->
  wstep C cfg w (AReq req) O = step C cfg w (AReq req) O.
Proof. exact wstep_idle. Qed.
Print Assumptions c12w_idle_is_step.

Theorem c12w_untouched_but_is_refused : forall C U w req w',
  sess_untouched_but (remembered C w req) w w' -> refused_for_w C U w req w'.
Proof. exact untouched_but_refused. Qed.
Print Assumptions c12w_untouched_but_is_refused.

Theorem c12w_accepted_of_accepted : forall C U w req w',
  accepted_for U w w' -> ~ remembered C w req U -> accepted_for_w C U w req w'.
Proof. exact accepted_w_of_accepted. Qed.
Print Assumptions c12w_accepted_of_accepted.

Theorem c12w_wstep_keeps_filed : forall C cfg w a O, filed (w_st w) -> filed (w_st (fst (wstep C cfg w a O))).
Proof. exact wstep_filed. Qed.
Print Assumptions c12w_wstep_keeps_filed.

(* the cut every step lemma below rests on: one request of the router as mounted is the route's [serve]
   run on a session view, from a state with the user table the request found, no context user, and no
   session events recorded other than the wrapper's *)
Theorem c12w_request_cut : forall C cfg w req O,
  let E := mkEnv C cfg O req (jar_get (q_browser req) (w_cook w)) (jar_get (q_browser req) (w_sess w)) in
  exists r h h1 s2,
    serve (with_sess E s2) h1 = (r, h) /\
    s_users (h_st h1) = s_users (w_st w) /\ h_cuser h1 = None /\
    Forall (fun e => (exists v, e = Put k_halfauth v) \/ (exists v, e = Put k_uid v /\ remembered C w req v)) (h_sev h1) /\
    w_st (fst (wstep C cfg w (AReq req) O)) = h_st h /\
    forall b, jar_get b (w_sess (fst (wstep C cfg w (AReq req) O))) = jar_get b (w_sess w) \/
              exists pre post, h_sev h = pre ++ post /\
                jar_get b (w_sess (fst (wstep C cfg w (AReq req) O))) = apply_events (jar_get b (w_sess w)) pre.
Proof. exact wstep_req_cut. Qed.
Print Assumptions c12w_request_cut.

(* ---- 2. an absent password is refused -------------------------------------------------------------- *)
Theorem c12w_absent_otp_refused : forall C cfg w req O U x,
  filed (w_st w) -> otp_login_req cfg req U x -> otp_absent C x U (w_st w) ->
  let w' := fst (wstep C cfg w (AReq req) O) in
  (forall b k, k <> k_flash_ok -> k <> k_flash_err -> k <> k_uid -> k <> k_halfauth ->
     alookup k (jar_get b (w_sess w')) = alookup k (jar_get b (w_sess w))) /\
  (forall b V, alookup k_uid (jar_get b (w_sess w')) = Some V ->
     alookup k_uid (jar_get b (w_sess w)) = Some V \/ remembered C w req V).
Proof. exact absent_otp_refused_w. Qed.
Print Assumptions c12w_absent_otp_refused.

Theorem c12w_absent_otp_refused_idle : forall C cfg w req O U x,
  wrapper_idle (mkEnv C cfg O req (jar_get (q_browser req) (w_cook w)) (jar_get (q_browser req) (w_sess w))) ->
  filed (w_st w) -> otp_login_req cfg req U x -> otp_absent C x U (w_st w) ->
  sess_untouched w (fst (wstep C cfg w (AReq req) O)).
Proof. exact absent_otp_refused_idle. Qed.
Print Assumptions c12w_absent_otp_refused_idle.

(* ---- 3. absence is preserved: every [wstep] other than the two visible exceptions ------------------ *)
Theorem c12w_hits_never_grow : forall C cfg w a O U x,
  filed (w_st w) -> ~ seeds U a -> ~ otp_add_may_hit C x a O ->
  (otp_hits C x U (w_st (fst (wstep C cfg w a O))) <= otp_hits C x U (w_st w))%nat.
Proof. exact wstep_hits_le. Qed.
Print Assumptions c12w_hits_never_grow.

Theorem c12w_absent_preserved : forall C cfg w a O U x,
  filed (w_st w) -> otp_absent C x U (w_st w) -> ~ seeds U a -> ~ otp_add_may_hit C x a O ->
  otp_absent C x U (w_st (fst (wstep C cfg w a O))).
Proof. exact wstep_absent_preserved. Qed.
Print Assumptions c12w_absent_preserved.

Theorem c12w_unique_preserved : forall C cfg w a O U x,
  filed (w_st w) -> otp_unique C x U (w_st w) -> ~ seeds U a -> ~ otp_add_may_hit C x a O ->
  otp_unique C x U (w_st (fst (wstep C cfg w a O))).
Proof. exact wstep_unique_preserved. Qed.
Print Assumptions c12w_unique_preserved.

Theorem c12w_history_absent_preserved : forall C cfg U x l w,
  filed (w_st w) -> otp_absent C x U (w_st w) -> otp_quiet C U x l ->
  otp_absent C x U (w_st (fst (wrun C cfg w l))).
Proof. exact wrun_absent_preserved. Qed.
Print Assumptions c12w_history_absent_preserved.

Theorem c12w_history_unique_preserved : forall C cfg U x l w,
  filed (w_st w) -> otp_unique C x U (w_st w) -> otp_quiet C U x l ->
  otp_unique C x U (w_st (fst (wrun C cfg w l))).
Proof. exact wrun_unique_preserved. Qed.
Print Assumptions c12w_history_unique_preserved.

(* ---- 4. the accepting step establishes absence ----------------------------------------------------- *)
Theorem c12w_consumption_establishes_absent : forall C cfg w req O U x,
  filed (w_st w) -> otp_login_req cfg req U x -> otp_unique C x U (w_st w) ->
  accepted_for_w C U w req (fst (wstep C cfg w (AReq req) O)) ->
  otp_absent C x U (w_st (fst (wstep C cfg w (AReq req) O))).
Proof. exact consumption_establishes_absent_w_lemma. Qed.
Print Assumptions c12w_consumption_establishes_absent.

(* ... indeed if the request changed anything the wrapper cannot have changed *)
Theorem c12w_consumption_establishes_absent_gen : forall C cfg w req O U x,
  filed (w_st w) -> otp_login_req cfg req U x -> otp_unique C x U (w_st w) ->
  ~ sess_untouched_but (remembered C w req) w (fst (wstep C cfg w (AReq req) O)) ->
  otp_absent C x U (w_st (fst (wstep C cfg w (AReq req) O))).
Proof. exact consumption_establishes_absent_w. Qed.
Print Assumptions c12w_consumption_establishes_absent_gen.

(* ---- 5. never again ---------------------------------------------------------------------------------- *)
(* Any crypto, configuration (wrapped or not), filed start world w0; any history l1 of the system as
   mounted; then req1, an /otp/login (U, x) that the HANDLER accepted (some jar newly names U - parked,
   or as identity with no remember cookie of U in play) from a world in which U's record held at most
   one entry for x; then ANY history l2 without the two visible exceptions; then req2, an /otp/login
   (U, x) by any browser under any oracle.  req2 changes no session key in any jar other than flash
   messages and what the wrapper does for a remember cookie that req2 itself carries (half-auth mark;
   the identity of the cookie's owner if its token is stored): the one-time password logs nobody in
   and parks nobody; U's record still has no entry for x.  With an idle wrapper: the conclusions of
   c12_otp_never_again as they are. *)
Theorem c12w_otp_never_again : forall C cfg w0 l1 req1 O1 l2 req2 O2 U x,
  filed (w_st w0) ->
  otp_login_req cfg req1 U x -> otp_login_req cfg req2 U x ->
  otp_unique C x U (w_st (fst (wrun C cfg w0 l1))) ->
  accepted_for_w C U (fst (wrun C cfg w0 l1)) req1 (fst (wstep C cfg (fst (wrun C cfg w0 l1)) (AReq req1) O1)) ->
  Forall (fun ao => ~ seeds U (fst ao) /\ ~ otp_add_may_hit C x (fst ao) (snd ao)) l2 ->
  let w2 := fst (wrun C cfg w0 (l1 ++ (AReq req1, O1) :: l2)) in
  let w3 := fst (wrun C cfg w0 (l1 ++ (AReq req1, O1) :: l2 ++ [(AReq req2, O2)])) in
  sess_untouched_but (remembered C w2 req2) w2 w3 /\
  refused_for_w C U w2 req2 w3 /\
  otp_absent C x U (w_st w2) /\
  (wrapper_idle (mkEnv C cfg O2 req2 (jar_get (q_browser req2) (w_cook w2)) (jar_get (q_browser req2) (w_sess w2))) ->
   sess_untouched w2 w3 /\ refused_for U w2 w3).
Proof. exact otp_never_again_w_lemma. Qed.
Print Assumptions c12w_otp_never_again.

(* without the global wrapper: the statement of c12_otp_never_again, for [wrun] *)
Theorem c12w_otp_never_again_unwrapped : forall C cfg w0 l1 req1 O1 l2 req2 O2 U x,
  c_wrap_remember cfg = false ->
  filed (w_st w0) ->
  otp_login_req cfg req1 U x -> otp_login_req cfg req2 U x ->
  otp_unique C x U (w_st (fst (wrun C cfg w0 l1))) ->
  accepted_for U (fst (wrun C cfg w0 l1)) (fst (wstep C cfg (fst (wrun C cfg w0 l1)) (AReq req1) O1)) ->
  Forall (fun ao => ~ seeds U (fst ao) /\ ~ otp_add_may_hit C x (fst ao) (snd ao)) l2 ->
  sess_untouched (fst (wrun C cfg w0 (l1 ++ (AReq req1, O1) :: l2)))
                 (fst (wrun C cfg w0 (l1 ++ (AReq req1, O1) :: l2 ++ [(AReq req2, O2)]))) /\
  refused_for U (fst (wrun C cfg w0 (l1 ++ (AReq req1, O1) :: l2)))
                (fst (wrun C cfg w0 (l1 ++ (AReq req1, O1) :: l2 ++ [(AReq req2, O2)]))) /\
  otp_absent C x U (w_st (fst (wrun C cfg w0 (l1 ++ (AReq req1, O1) :: l2)))).
Proof. exact otp_never_again_w_unwrapped_lemma. Qed.
Print Assumptions c12w_otp_never_again_unwrapped.

(* the hypotheses are satisfiable in a WRAPPED deployment (executable crypto instance, computed): the
   history of c12_otp_never_again_nonvacuous run by the router as mounted *)
Example c12w_otp_never_again_nonvacuous :
  exists C cfg w0 l1 req1 O1 l2 req2 (O2 : oracle) U x,
    crypto_laws C /\ c_wrap_remember cfg = true /\ l2 <> [] /\
    filed (w_st w0) /\ otp_login_req cfg req1 U x /\ otp_login_req cfg req2 U x /\
    otp_unique C x U (w_st (fst (wrun C cfg w0 l1))) /\
    accepted_for_w C U (fst (wrun C cfg w0 l1)) req1 (fst (wstep C cfg (fst (wrun C cfg w0 l1)) (AReq req1) O1)) /\
    otp_quiet C U x l2 /\
    (exists u, ulookup U (s_users (w_st (fst (wrun C cfg w0 (l1 ++ (AReq req1, O1) :: l2))))) = Some u /\
               length (split_otps (u_otps u)) = 1%nat).
Proof. exact wox_witness. Qed.
Print Assumptions c12w_otp_never_again_nonvacuous.

(* ---- 6. the same chain for the 2FA recovery codes ---------------------------------------------------- *)
(* refusal: U's record verifies c against nothing: no jar newly names U, unless the request carried a
   remember cookie of U with a stored token (then the wrapper wrote it, half-authenticated).  The
   validator runs on the view the wrapper hands on: with a cookie in play it checks the code against
   the COOKIE OWNER's record (twofactor validation takes the current user first). *)
Theorem c12w_absent_recovery_code_refused : forall C cfg w req O U c,
  filed (w_st w) -> rc_validate_req cfg req c -> rc_absent C c U (w_st w) ->
  forall b, alookup k_uid (jar_get b (w_sess (fst (wstep C cfg w (AReq req) O)))) = Some U ->
            alookup k_uid (jar_get b (w_sess w)) = Some U \/ remembered C w req U.
Proof. exact rc_absent_refused_w. Qed.
Print Assumptions c12w_absent_recovery_code_refused.

Theorem c12w_absent_recovery_code_refused_idle : forall C cfg w req O U c,
  wrapper_idle (mkEnv C cfg O req (jar_get (q_browser req) (w_cook w)) (jar_get (q_browser req) (w_sess w))) ->
  filed (w_st w) -> rc_validate_req cfg req c -> rc_absent C c U (w_st w) ->
  not_logged_in_as U w (fst (wstep C cfg w (AReq req) O)).
Proof. exact rc_absent_refused_idle. Qed.
Print Assumptions c12w_absent_recovery_code_refused_idle.

Theorem c12w_rc_absent_preserved : forall C cfg w a O U c,
  nocomma C -> pwcheck C [] c = false ->
  filed (w_st w) -> rc_absent C c U (w_st w) -> ~ seeds U a -> ~ regen_may_hit C c a O ->
  rc_absent C c U (w_st (fst (wstep C cfg w a O))).
Proof. exact wstep_rc_absent_preserved. Qed.
Print Assumptions c12w_rc_absent_preserved.

Theorem c12w_history_rc_absent_preserved : forall C cfg U c l w,
  nocomma C -> pwcheck C [] c = false ->
  filed (w_st w) -> rc_absent C c U (w_st w) -> rc_quiet C U c l -> rc_absent C c U (w_st (fst (wrun C cfg w l))).
Proof. exact wrun_rc_absent_preserved. Qed.
Print Assumptions c12w_history_rc_absent_preserved.

Theorem c12w_rc_consumption_establishes_absent : forall C cfg w req O U c plain,
  crypto_laws C -> filed (w_st w) -> rc_validate_req cfg req c ->
  (forall u, ulookup U (s_users (w_st w)) = Some u -> decode_codes (u_recovery u) = map (pwhash C) plain) ->
  NoDup plain -> Forall pw_dom plain -> pw_dom c -> pwcheck C [] c = false ->
  logged_in_as U w (fst (wstep C cfg w (AReq req) O)) -> ~ remembered C w req U ->
  rc_absent C c U (w_st (fst (wstep C cfg w (AReq req) O))).
Proof. exact rc_consumption_establishes_absent_w. Qed.
Print Assumptions c12w_rc_consumption_establishes_absent.

(* never again: l1, then the validation request req1 that logged U in against c - not through a
   remember cookie of U -, then ANY history l2 of the system as mounted without a direct seed of U and
   without a code generation that may draw c, then a validation request req2 with the same c by any
   browser under any oracle: no jar newly names U unless req2 itself carries a remember cookie of U
   with a stored token; with an idle wrapper no jar does *)
Theorem c12w_recovery_code_never_again : forall C cfg w0 l1 req1 O1 l2 req2 O2 U c plain,
  crypto_laws C -> filed (w_st w0) ->
  rc_validate_req cfg req1 c -> rc_validate_req cfg req2 c ->
  (forall u, ulookup U (s_users (w_st (fst (wrun C cfg w0 l1)))) = Some u ->
     decode_codes (u_recovery u) = map (pwhash C) plain) ->
  NoDup plain -> Forall pw_dom plain -> pw_dom c -> pwcheck C [] c = false ->
  logged_in_as U (fst (wrun C cfg w0 l1)) (fst (wstep C cfg (fst (wrun C cfg w0 l1)) (AReq req1) O1)) ->
  ~ remembered C (fst (wrun C cfg w0 l1)) req1 U ->
  Forall (fun ao => ~ seeds U (fst ao) /\ ~ regen_may_hit C c (fst ao) (snd ao)) l2 ->
  let w2 := fst (wrun C cfg w0 (l1 ++ (AReq req1, O1) :: l2)) in
  let w3 := fst (wrun C cfg w0 (l1 ++ (AReq req1, O1) :: l2 ++ [(AReq req2, O2)])) in
  (forall b, alookup k_uid (jar_get b (w_sess w3)) = Some U ->
             alookup k_uid (jar_get b (w_sess w2)) = Some U \/ remembered C w2 req2 U) /\
  rc_absent C c U (w_st w2) /\
  (wrapper_idle (mkEnv C cfg O2 req2 (jar_get (q_browser req2) (w_cook w2)) (jar_get (q_browser req2) (w_sess w2))) ->
   not_logged_in_as U w2 w3).
Proof. exact recovery_code_never_again_w_lemma. Qed.
Print Assumptions c12w_recovery_code_never_again.

Theorem c12w_recovery_code_never_again_unwrapped : forall C cfg w0 l1 req1 O1 l2 req2 O2 U c plain,
  c_wrap_remember cfg = false ->
  crypto_laws C -> filed (w_st w0) ->
  rc_validate_req cfg req1 c -> rc_validate_req cfg req2 c ->
  (forall u, ulookup U (s_users (w_st (fst (wrun C cfg w0 l1)))) = Some u ->
     decode_codes (u_recovery u) = map (pwhash C) plain) ->
  NoDup plain -> Forall pw_dom plain -> pw_dom c -> pwcheck C [] c = false ->
  logged_in_as U (fst (wrun C cfg w0 l1)) (fst (wstep C cfg (fst (wrun C cfg w0 l1)) (AReq req1) O1)) ->
  Forall (fun ao => ~ seeds U (fst ao) /\ ~ regen_may_hit C c (fst ao) (snd ao)) l2 ->
  not_logged_in_as U (fst (wrun C cfg w0 (l1 ++ (AReq req1, O1) :: l2)))
                     (fst (wrun C cfg w0 (l1 ++ (AReq req1, O1) :: l2 ++ [(AReq req2, O2)]))) /\
  rc_absent C c U (w_st (fst (wrun C cfg w0 (l1 ++ (AReq req1, O1) :: l2)))).
Proof. exact recovery_code_never_again_w_unwrapped_lemma. Qed.
Print Assumptions c12w_recovery_code_never_again_unwrapped.

Example c12w_recovery_code_never_again_nonvacuous :
  exists C cfg w0 l1 req1 O1 l2 req2 (O2 : oracle) U c plain,
    crypto_laws C /\ c_wrap_remember cfg = true /\ l2 <> [] /\ filed (w_st w0) /\
    rc_validate_req cfg req1 c /\ rc_validate_req cfg req2 c /\
    (forall u, ulookup U (s_users (w_st (fst (wrun C cfg w0 l1)))) = Some u ->
       decode_codes (u_recovery u) = map (pwhash C) plain) /\
    NoDup plain /\ Forall pw_dom plain /\ pw_dom c /\ pwcheck C [] c = false /\
    logged_in_as U (fst (wrun C cfg w0 l1)) (fst (wstep C cfg (fst (wrun C cfg w0 l1)) (AReq req1) O1)) /\
    ~ remembered C (fst (wrun C cfg w0 l1)) req1 U /\
    rc_quiet C U c l2 /\
    alookup k_totp_pending (jar_get (q_browser req2) (w_sess (fst (wrun C cfg w0 (l1 ++ (AReq req1, O1) :: l2))))) = Some U.
Proof. exact wrx_witness. Qed.
Print Assumptions c12w_recovery_code_never_again_nonvacuous.
