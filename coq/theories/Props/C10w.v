(* C10 for the wrapped deployment: logout under a global remember.Middleware.

   The wrapper runs first: when the browser's session names nobody and its remember cookie carries
   an unconsumed token, the wrapper consumes the token, stores and sends a fresh one, and records
   uid / halfauth for the session - and THEN the logout handler records its deletions (session:
   DelAll(whitelist), Del uid, Del halfauth, Del last_action; cookie: Del rm) in the same event
   lists, so that what is flushed with the response still ends in the deletions.  The statement of
   Props/C10b.v (c10_step_logout) therefore holds for [wstep] word for word in its browser-side
   part; on the storage side only the user table is unchanged (the remember-token table of the
   cookie's owner may have been rotated by the wrapper; without the wrapper storage is unchanged). *)
From AB Require Import World.Step Proofs.EvLogic Proofs.Gate Proofs.LogoutProofs Proofs.StepLift2 Proofs.Wrapped.
Open Scope Z_scope.

Theorem c10w_step_logout : forall C cfg w req O,
  q_route req = RLogout -> q_meth req = c_logout_method cfg -> q_meth req <> PUT ->
  has_mod cfg MLogout = true ->
  let b := q_browser req in
  let w' := fst (wstep C cfg w (AReq req) O) in
  let o := snd (wstep C cfg w (AReq req) O) in
  let W := bsplit ","%byte (bjoin ","%byte (c_whitelist cfg)) in
  let j := jar_get b (w_sess w) in
  let j' := jar_get b (w_sess w') in
  s_users (w_st w') = s_users (w_st w) /\
  (c_wrap_remember cfg = false -> w_st w' = w_st w) /\
  (ob_resp o <> None ->
     (forall k, ahas k j' = true ->
        (bmem k W = true /\ k <> k_uid /\ k <> k_halfauth /\ k <> k_last_action) \/ k = k_flash_ok) /\
     (forall k, bmem k W = true -> k <> k_uid -> k <> k_halfauth -> k <> k_last_action -> k <> k_flash_ok ->
        alookup k j' = alookup k j) /\
     alookup k_uid j' = None /\ alookup k_halfauth j' = None /\ alookup k_last_action j' = None /\
     (c_api cfg = false -> alookup k_flash_ok j' = Some v_flash) /\
     alookup k_rm (jar_get b (w_cook w')) = None /\
     (forall k, k <> k_rm -> alookup k (jar_get b (w_cook w')) = alookup k (jar_get b (w_cook w)))) /\
  (ob_resp o = None ->
     c_api cfg = true /\ c_err_writes cfg = false /\ (exists n ek, fault_at n (o_faults O) = Some ek) /\
     w_sess w' = w_sess w /\ w_cook w' = w_cook w) /\
  (forall b', b' <> b ->
     jar_get b' (w_sess w') = jar_get b' (w_sess w) /\ jar_get b' (w_cook w') = jar_get b' (w_cook w)).
Proof. exact wstep_logout_lemma. Qed.
Print Assumptions c10w_step_logout.

(* what the wrapper can record before the handler runs: session events for uid / halfauth only,
   cookie events for rm only *)
Theorem c10w_wrapper_events : forall E h r h',
  remember_mw E h = (r, h') ->
  exists ls lc, h_sev h' = h_sev h ++ ls /\ h_cev h' = h_cev h ++ lc /\
    Forall (fun e => exists v, e = Put k_uid v \/ e = Put k_halfauth v) ls /\
    Forall (fun e => e = Del k_rm \/ exists v, e = Put k_rm v) lc.
Proof. exact wrapper_events. Qed.
Print Assumptions c10w_wrapper_events.

(* [wstep] applies the outcome of [serve_top] exactly as [step] applies that of [serve] *)
Theorem c10w_wstep_shape : forall C cfg w req O r h,
  let b := q_browser req in
  serve_top (mkEnv C cfg O req (jar_get b (w_cook w)) (jar_get b (w_sess w))) (init_hst (w_st w) O) = (r, h) ->
  let w' := fst (wstep C cfg w (AReq req) O) in
  snd (wstep C cfg w (AReq req) O) = obs_of r h /\
  w_st w' = h_st h /\
  match h_out h with
  | Some wr => jar_get b (w_sess w') = apply_events (jar_get b (w_sess w)) (w_sev wr) /\
               jar_get b (w_cook w') = apply_events (jar_get b (w_cook w)) (w_cev wr)
  | None => w_sess w' = w_sess w /\ w_cook w' = w_cook w
  end.
Proof. exact wstep_shape_eq. Qed.
Print Assumptions c10w_wstep_shape.
