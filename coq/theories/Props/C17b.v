(* C17, continued — the log stream: per handler, the finite set of values that can appear as an
   argument of a log line, named on the request and the storage the request started from.
   Submitted passwords and token texts are not in these sets. *)
From AB Require Import World.Handlers Proofs.MonadInv Proofs.LogProofs.

(* hooks log only pid, e-mail and SMS number of the principal in the context: if P holds of
   these three, every line logged while firing ANY event (any hook list, any order) satisfies P,
   and the context user keeps those three fields *)
Theorem c17_fire_logs : forall (E : env) (u0 : user) (P : bytes -> Prop),
  P (u_pid u0) -> P (u_email u0) -> P (u_sms u0) ->
  forall e rm h r h',
  (exists cu, h_cuser h = Some cu /\ u_pid cu = u_pid u0 /\ u_email cu = u_email u0 /\ u_sms cu = u_sms u0) ->
  fire E e rm h = (r, h') ->
  (exists cu, h_cuser h' = Some cu /\ u_pid cu = u_pid u0 /\ u_email cu = u_email u0 /\ u_sms cu = u_sms u0) /\
  exists l, h_logs h' = h_logs h ++ l /\ Forall (Forall P) l.
Proof. exact lg_fire. Qed.
Print Assumptions c17_fire_logs.

(* password login logs the submitted pid and pid / e-mail / SMS number of the record stored
   under it; nothing else *)
Theorem c17_login_logs : forall (E : env) h r h',
  login_post E h = (r, h') ->
  exists l, h_logs h' = h_logs h ++ l /\
    Forall (Forall (fun a =>
      a = aget (pid_field E) (values E) \/
      exists u, ulookup (aget (pid_field E) (values E)) (s_users (h_st h)) = Some u /\
                (a = u_pid u \/ a = u_email u \/ a = u_sms u))) l.
Proof. exact login_post_logs. Qed.
Print Assumptions c17_login_logs.

(* one-time-password login: the same set *)
Theorem c17_otp_login_logs : forall (E : env) h r h',
  otp_login_post E h = (r, h') ->
  exists l, h_logs h' = h_logs h ++ l /\
    Forall (Forall (fun a =>
      a = aget (pid_field E) (values E) \/
      exists u, ulookup (aget (pid_field E) (values E)) (s_users (h_st h)) = Some u /\
                (a = u_pid u \/ a = u_email u \/ a = u_sms u))) l.
Proof. exact otp_login_post_logs. Qed.
Print Assumptions c17_otp_login_logs.

(* confirmation: the selector HASH of the submitted token, and pid / stored verifier hash of
   the record that selector finds; the token text itself is never an argument *)
Theorem c17_confirm_logs : forall (E : env) h r h',
  confirm_get E h = (r, h') ->
  exists l, h_logs h' = h_logs h ++ l /\
    Forall (Forall (fun a =>
      exists raw, b64url_dec (aget f_cnf (values E)) = Some raw /\
        (a = selector_of E raw \/
         exists u, ufind (fun u => beqb (u_csel u) (selector_of E raw)) (s_users (h_st h)) = Some u /\
                   (a = u_pid u \/ a = u_cver u)))) l.
Proof. exact confirm_get_logs. Qed.
Print Assumptions c17_confirm_logs.

(* end of recovery: stored verifier hash, pid, e-mail, SMS number of the record the token's
   selector finds; neither the token nor the new password *)
Theorem c17_recover_end_logs : forall (E : env) h r h',
  recover_end_post E h = (r, h') ->
  exists l, h_logs h' = h_logs h ++ l /\
    Forall (Forall (fun a =>
      exists raw u, b64url_dec (aget f_token (values E)) = Some raw /\
        ufind (fun u => beqb (u_rsel u) (selector_of E raw)) (s_users (h_st h)) = Some u /\
        (a = u_rver u \/ a = u_pid u \/ a = u_email u \/ a = u_sms u))) l.
Proof. exact recover_end_post_logs. Qed.
Print Assumptions c17_recover_end_logs.
