(* C14 — flow part on the model: the OAuth2 callback needs the session's own, unused state. *)
From AB Require Import World.Handlers Proofs.Neutral Proofs.FlowProofs.

(* no state in the session, or a submitted state different from it: the callback fails having
   made no backend call and changed nothing (storage, session events, cookie events) *)
Theorem c14_mismatch_no_calls : forall E prov h r h',
  alookup k_oauth_state (e_sess E) <> Some (form_value E f_state) ->
  oauth2_end E prov h = (r, h') ->
  r = Err ErrOther /\ h_ncalls h' = h_ncalls h /\ h_st h' = h_st h /\ h_sev h' = h_sev h /\ h_cev h' = h_cev h.
Proof. exact oauth2_end_mismatch_no_calls. Qed.
Print Assumptions c14_mismatch_no_calls.

(* a matching state is spent before anything else: whatever happens afterwards (provider error,
   exchange failure, storage failure, success) the appended session events begin with the
   deletion of the state and of the stored parameters, so the state cannot be used twice *)
Theorem c14_state_spent : forall E prov h r h',
  bmem prov (c_providers (e_cfg E)) = true ->
  alookup k_oauth_state (e_sess E) = Some (form_value E f_state) ->
  oauth2_end E prov h = (r, h') ->
  exists tail, h_sev h' = h_sev h ++ Del k_oauth_state :: Del k_oauth_params :: tail.
Proof. exact oauth2_end_spends_state. Qed.
Print Assumptions c14_state_spent.

(* a callback carrying a non-empty provider error appends only session events that leave the
   identity key alone, and does not change storage *)
Theorem c14_provider_error_neutral : forall E prov h r h',
  bempty (form_value E f_error) = false ->
  oauth2_end E prov h = (r, h') ->
  (exists ls lc, h_sev h' = h_sev h ++ ls /\ h_cev h' = h_cev h ++ lc /\ Forall sess_neutral ls) /\
  h_st h' = h_st h.
Proof. exact oauth2_end_provider_error_neutral. Qed.
Print Assumptions c14_provider_error_neutral.
