(* C19 — property theorems: policy part (pure) and registration outcomes (request level). *)
From Coq Require Import String.
From AB Require Import Model.Rules Spec.C19 Proofs.RulesProofs.
Open Scope Z_scope.

(* the evaluator reports no error exactly when every configured minimum / maximum holds —
   for every rule setting, every byte string and every classification of its runes *)
Theorem c19_policy : forall r s cls, rule_errors r s cls = [] <-> rule_holds r s cls.
Proof. exact c19_policy_lemma. Qed.
Print Assumptions c19_policy.

(* the counts are plain multiset counts of the classes *)
Theorem c19_count_app : forall c a b, count c (a ++ b) = count c a + count c b.
Proof. exact c19_count_app_lemma. Qed.
Print Assumptions c19_count_app.

(* confirmation fields: a non-empty main value must be matched exactly *)
Theorem c19_confirm : forall vals main conf,
  confirm_errors vals [(main, conf)] = [] <->
  (aget main vals = [] \/ (aget conf vals <> [] /\ aget conf vals = aget main vals)).
Proof. exact c19_confirm_lemma. Qed.
Print Assumptions c19_confirm.

(* the default password rule (8+ bytes, one upper, one lower, one digit, one symbol, no whitespace) *)
Example c19_default_rule :
  let r := mkRule [] false MNone 8 0 0 1 1 1 1 false in
  let ok := list_byte_of_string "Passw0rd!"%string in
  let bad := list_byte_of_string "password1"%string in
  rule_errors r ok (ascii_classes ok) = [] /\ rule_errors r bad (ascii_classes bad) = [EUpper; ESymbols].
Proof. split; reflexivity. Qed.
