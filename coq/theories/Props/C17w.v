(* C17 for the wrapped deployment ([serve_top] / [wstep] / [wrun]: the module routes behind a global
   remember.Middleware).  Both halves hold with the SAME vocabulary as for [serve] / [step] / [run]:
   the wrapper logs only empty lines and leaves the user table and the context user alone, and the
   session view it hands on differs from the request's session only in the keys uid / halfauth, so
   the atoms the inner request may log are atoms of the request as it arrived; the wrapper writes
   only digests into the remember table. *)
From AB Require Import World.Step Proofs.MonadInv Proofs.LogProofs Proofs.LogProofs2 Proofs.StoreLogic
  Proofs.TwoFactorProofs Proofs.StoreShape Proofs.Wrapped.

(* ---- log half --------------------------------------------------------------------------------- *)
Theorem c17_serve_top_logs_allowed : forall (E : env) (h : hst) r h',
  serve_top E h = (r, h') ->
  exists l, h_logs h' = h_logs h ++ l /\ Forall (Forall (allowed E h)) l.
Proof. exact serve_top_logs_allowed. Qed.
Print Assumptions c17_serve_top_logs_allowed.

Theorem c17_secret_not_logged_top : forall (E : env) (h : hst) r h' (s : bytes),
  ~ allowed E h s ->
  serve_top E h = (r, h') ->
  exists l, h_logs h' = h_logs h ++ l /\ forall line, In line l -> ~ In s line.
Proof. exact serve_top_secret_not_logged. Qed.
Print Assumptions c17_secret_not_logged_top.

(* why the same list works: what the inner request (session view s2, state h1 after the wrapper) may
   log is allowed for the request as it arrived *)
Theorem c17_allowed_inner : forall E h h1 s2 a,
  s_users (h_st h1) = s_users (h_st h) -> h_cuser h1 = h_cuser h ->
  alookup k_sms_number s2 = alookup k_sms_number (e_sess E) ->
  allowed (with_sess E s2) h1 a -> allowed E h a.
Proof. exact allowed_inner. Qed.
Print Assumptions c17_allowed_inner.

(* ---- storage half ------------------------------------------------------------------------------ *)
Theorem c17_serve_top_writes_digests : forall E h r h',
  crypto_laws (e_C E) -> filed (h_st h) -> ctx_stored h -> serve_top E h = (r, h') ->
  filed (h_st h') /\
  (forall p, match ulookup p (s_users (h_st h)), ulookup p (s_users (h_st h')) with
             | Some a, Some b => written (e_C E) a b
             | None, Some b => written (e_C E) blank_user b
             | Some _, None => False
             | None, None => True
             end) /\
  (forall p, rm_written (e_C E) (rmlookup p (s_rm (h_st h))) (rmlookup p (s_rm (h_st h')))).
Proof. exact serve_top_writes_digests_lemma. Qed.
Print Assumptions c17_serve_top_writes_digests.

(* one step of the wrapped state machine *)
Theorem c17_wstep_writes_digests : forall C cfg w a O w' o,
  crypto_laws C -> ~ is_seed a -> filed (w_st w) -> wstep C cfg w a O = (w', o) ->
  filed (w_st w') /\ shape C (w_st w) (w_st w').
Proof. exact wstep_writes_digests_lemma. Qed.
Print Assumptions c17_wstep_writes_digests.

(* [wrun] is [run] with [wstep] for [step] (Proofs/Wrapped.v); without the wrapper it is [run] *)
Theorem c17_wrun_reading : forall C cfg w a orc l,
  wrun C cfg w [] = (w, []) /\
  wrun C cfg w ((a, orc) :: l) =
    (let '(w', o) := wstep C cfg w a orc in let '(w'', os) := wrun C cfg w' l in (w'', o :: os)).
Proof. exact wrun_reading. Qed.
Print Assumptions c17_wrun_reading.

Theorem c17_wrun_unwrapped : forall C cfg, c_wrap_remember cfg = false -> forall l w, wrun C cfg w l = run C cfg w l.
Proof. exact wrun_unwrapped. Qed.
Print Assumptions c17_wrun_unwrapped.

(* any history without direct seeds *)
Theorem c17_whistory_writes_digests : forall C cfg l w w' os,
  crypto_laws C -> Forall (fun ao => ~ is_seed (fst ao)) l -> filed (w_st w) -> wrun C cfg w l = (w', os) ->
  filed (w_st w') /\ shape C (w_st w) (w_st w').
Proof. exact whistory_writes_digests_lemma. Qed.
Print Assumptions c17_whistory_writes_digests.

Theorem c17_whistory_from_empty : forall C cfg l w' os,
  crypto_laws C -> Forall (fun ao => ~ is_seed (fst ao)) l -> wrun C cfg empty_world l = (w', os) ->
  (forall p b, ulookup p (s_users (w_st w')) = Some b -> stored_shape C b) /\
  (forall p t, In t (rmlookup p (s_rm (w_st w'))) -> is_digest C t).
Proof. exact whistory_from_empty_lemma. Qed.
Print Assumptions c17_whistory_from_empty.
