(* C04 — the tie between the pure lock machine and the system (Props/C04c.v), for the WRAPPED deployment:
   the router as mounted ([serve_top]: module routes behind a global remember.Middleware when
   [c_wrap_remember cfg]), [wstep] and [wrun] (statements fixed; proofs live in Proofs/LockWorldW.v, on
   top of Proofs/LockWorld2.v).

   Vocabulary beyond Props/C04c.v (Proofs/Wrapped.v, Proofs/LockWorldW.v):
     wrapped_route E           the wrapper is taken: c_wrap_remember and the route is not an application
                               route (RApp routes carry their own stack and are not wrapped twice);
     wrap_pid E st             whom the wrapper logs in, purely (no backend faults): nobody when the session
                               names somebody; otherwise the account named by a well-formed remember cookie
                               whose token storage st still holds;
     half_view pid s           the session view after such a login: s overlaid with uid = pid and the
                               half-auth mark;
     wrap_view E h             the view the wrapper hands to the route when started in h (read off the
                               wrapper's own run: [c04w_view_exact] gives it purely);
     wenv_of C cfg w req O     the environment the route's handler runs in under [wstep]: the jars' view
                               [env_of], its session replaced by [wrap_view] on a wrapped route;
     wlock_ops C cfg w a O P   the machine operations action a, taken in world w under oracle O by the
                               router as mounted, applies to account P's triple: for a request the ops of
                               its route's target [req_tgt] evaluated in [wenv_of] on the user table of w
                               (the wrapper does not touch the user table), [lock_ops] for every other
                               action;
     wrun_ops, wseeds_keep     [run_ops], [seeds_keep] along [wstep];
     wrapper_idle E            the request carries no remember cookie, or the session already names
                               somebody.
   Standing hypotheses as in C04c.v, all visible: NoDup (c_mods cfg), has_mod cfg MLock = true,
   o_faults O = [] for the oracles of the history (the wrapper's own backend calls UseRememberToken /
   AddRememberToken are covered: without faults the call numbering does not matter), filed (w_st w). *)
From AB Require Import World.Step Model.Lock Spec.C04 Proofs.MonadInv Proofs.StoreLogic
  Proofs.TwoFactorProofs Proofs.StoreShape Proofs.Wrapped Proofs.LockWorld Proofs.LockWorld2 Proofs.LockWorldW.
Open Scope Z_scope.

(* 1. the frame: every request that is not one of the [ckind_of] ones keeps every lock triple under the
   router as mounted - remember cookie or not (the wrapper may consume and re-issue a token), backend
   faults or not *)
Theorem c04w_serve_top_keeps_triples : forall E,
  ckind_of (e_cfg E) (e_req E) = None ->
  forall h r h', filed (h_st h) -> ctx_stored h -> serve_top E h = (r, h') ->
  filed (h_st h') /\
  forall p u, ulookup p (s_users (h_st h)) = Some u ->
    exists u', ulookup p (s_users (h_st h')) = Some u' /\ ltriple u' = ltriple u.
Proof. exact serve_top_keeps_triples_lemma. Qed.
Print Assumptions c04w_serve_top_keeps_triples.

(* ... and so does the wrapper by itself, in front of any request *)
Theorem c04w_wrapper_keeps_triples : forall E h r h',
  filed (h_st h) -> ctx_stored h -> remember_mw E h = (r, h') ->
  filed (h_st h') /\
  forall p u, ulookup p (s_users (h_st h)) = Some u ->
    exists u', ulookup p (s_users (h_st h')) = Some u' /\ ltriple u' = ltriple u.
Proof. exact wrapper_keeps_lock. Qed.
Print Assumptions c04w_wrapper_keeps_triples.

(* without a remember cookie, or with a session that already names somebody, the wrapper is the
   identity: the router as mounted IS the plain one *)
Theorem c04w_serve_top_idle : forall E h,
  h_cpid h = None -> wrapper_idle E -> serve_top E h = serve E h.
Proof. exact serve_top_idle. Qed.
Print Assumptions c04w_serve_top_idle.

(* 2. one step.  [filed] (hence [keyed]) is an invariant of [wstep] *)
Theorem c04w_step_keeps_filed : forall C cfg w a O,
  filed (w_st w) -> filed (w_st (fst (wstep C cfg w a O))) /\ keyed (w_st (fst (wstep C cfg w a O))).
Proof. exact wstep_filed_keyed_lemma. Qed.
Print Assumptions c04w_step_keeps_filed.

(* ... and every account of the world is still there after the step, its triple the machine run over
   [wlock_ops] - for every action, every route and every remember cookie *)
Theorem c04w_step_applies_machine : forall C cfg w a O,
  NoDup (c_mods cfg) -> has_mod cfg MLock = true -> o_faults O = [] -> filed (w_st w) -> seed_keeps w a ->
  forall P u, ulookup P (s_users (w_st w)) = Some u ->
  exists u', ulookup P (s_users (w_st (fst (wstep C cfg w a O)))) = Some u' /\
             ltriple u' = lrun (lc_of cfg) (ltriple u) (wlock_ops C cfg w a O P).
Proof. exact wstep_applies_machine_lemma. Qed.
Print Assumptions c04w_step_applies_machine.

(* what [wlock_ops] is for a request: the route's target, in the environment after the wrapper ... *)
Theorem c04w_lock_ops_request : forall C cfg w req O P,
  wlock_ops C cfg w (AReq req) O P =
  match ckind_of cfg req with
  | Some k =>
      match req_tgt (wenv_of C cfg w req O) k (s_users (w_st w)) with
      | Some (P0, ops) => if beqb P P0 then ops else []
      | None => []
      end
  | None => []
  end.
Proof. exact wlock_ops_request_lemma. Qed.
Print Assumptions c04w_lock_ops_request.

(* ... which is, purely: the arrival environment, its session overlaid with the identity of the remember
   cookie's owner when the wrapper logs him in *)
Theorem c04w_view_exact : forall C cfg w req O,
  o_faults O = [] ->
  let E := env_of C cfg w req O in
  wenv_of C cfg w req O =
  if wrapped_route E then
    with_sess E (match wrap_pid E (w_st w) with Some pid => half_view pid (e_sess E) | None => e_sess E end)
  else E.
Proof. exact wenv_of_exact. Qed.
Print Assumptions c04w_view_exact.

(* a request changes the triple of at most one account *)
Theorem c04w_one_account : forall C cfg w req O P P',
  wlock_ops C cfg w (AReq req) O P <> [] -> wlock_ops C cfg w (AReq req) O P' <> [] -> P = P'.
Proof. exact wlock_ops_one_account_lemma. Qed.
Print Assumptions c04w_one_account.

(* 3. the tie with C04c.v: without the global wrapper [wlock_ops] is [lock_ops] ... *)
Theorem c04w_unwrapped : forall C cfg w a O P,
  c_wrap_remember cfg = false -> wlock_ops C cfg w a O P = lock_ops C cfg w a O P.
Proof. exact wlock_ops_unwrapped_lemma. Qed.
Print Assumptions c04w_unwrapped.

(* ... along whole histories too, where [wrun] is [run] *)
Theorem c04w_histories_unwrapped : forall C cfg,
  c_wrap_remember cfg = false ->
  forall l w P, wrun_ops C cfg w l P = run_ops C cfg w l P /\
                (wseeds_keep C cfg w l <-> seeds_keep C cfg w l) /\
                wrun C cfg w l = run C cfg w l.
Proof. exact wrun_ops_unwrapped_lemma. Qed.
Print Assumptions c04w_histories_unwrapped.

(* ... with the wrapper: on the application routes ... *)
Theorem c04w_app_route : forall C cfg w req O P full tf fr l c r e,
  q_route req = RApp full tf fr l c r e ->
  wlock_ops C cfg w (AReq req) O P = lock_ops C cfg w (AReq req) O P.
Proof. exact wlock_ops_app_lemma. Qed.
Print Assumptions c04w_app_route.

(* ... for a request without remember cookie or with a session identity, where the whole step is [step] ... *)
Theorem c04w_idle : forall C cfg w req O P,
  wrapper_idle (env_of C cfg w req O) ->
  wlock_ops C cfg w (AReq req) O P = lock_ops C cfg w (AReq req) O P /\
  wstep C cfg w (AReq req) O = step C cfg w (AReq req) O.
Proof. exact wlock_ops_idle_lemma. Qed.
Print Assumptions c04w_idle.

(* ... and, whatever the cookie, on the routes whose target does not look at the session identity:
   password login, one-time-password login, recover end, OAuth2 callback *)
Theorem c04w_session_free_routes : forall C cfg w req O P k,
  ckind_of cfg req = Some k -> (match k with CTotp | CSms _ => false | _ => true end) = true ->
  wlock_ops C cfg w (AReq req) O P = lock_ops C cfg w (AReq req) O P.
Proof. exact wlock_ops_sess_free_lemma. Qed.
Print Assumptions c04w_session_free_routes.

(* for instance a password login: [c04_lock_ops_login], cookie or not *)
Theorem c04w_lock_ops_login : forall C cfg w req O P,
  q_route req = RLogin -> q_meth req = POST -> has_mod cfg MAuth = true ->
  let E := env_of C cfg w req O in
  let pid := aget (pid_field E) (values E) in
  wlock_ops C cfg w (AReq req) O P =
  if readable E then
    match ulookup pid (s_users (w_st w)) with
    | Some u =>
        if beqb P pid then
          (if pwcheck C (u_password u) (aget f_password (values E))
           then ok_ops E (blocked E u || enrolled E u) else [LFail (o_now O)])
        else []
    | None => []
    end
  else [].
Proof. exact wlock_ops_login_lemma. Qed.
Print Assumptions c04w_lock_ops_login.

(* where the wrapper does matter: a POST /2fa/totp/validate that arrives with the remember cookie of
   account pid and no session identity has its code checked against pid's secret and counted on pid's
   triple (one LFail when wrong; LOkBefore, and LOkAfter unless refused, when right) - the wrapper logged
   pid in, half-authenticated, and TOTP.validate takes the current user before the pending one *)
Theorem c04w_lock_ops_totp_remembered : forall C cfg w req O P pid u,
  o_faults O = [] ->
  q_route req = RTotpValidate -> q_meth req = POST -> c_totp cfg = true -> c_wrap_remember cfg = true ->
  let E := env_of C cfg w req O in
  wrap_pid E (w_st w) = Some pid -> bempty pid = false -> ulookup pid (s_users (w_st w)) = Some u ->
  wlock_ops C cfg w (AReq req) O P =
  if readable E then (if beqb P pid then verdict_ops E (totp_verdict E u) (blocked E u) else []) else [].
Proof. exact wlock_ops_totp_remembered_lemma. Qed.
Print Assumptions c04w_lock_ops_totp_remembered.

(* 4. histories of the wrapped system: the triple of an account that exists in the start world is, after
   any fault-free history, the machine run over the concatenated per-step operation lists *)
Theorem c04w_run_applies_machine : forall C cfg l w,
  NoDup (c_mods cfg) -> has_mod cfg MLock = true -> Forall (fun ao => o_faults (snd ao) = []) l ->
  filed (w_st w) -> wseeds_keep C cfg w l ->
  forall P u, ulookup P (s_users (w_st w)) = Some u ->
  exists u', ulookup P (s_users (w_st (fst (wrun C cfg w l)))) = Some u' /\
             ltriple u' = lrun (lc_of cfg) (ltriple u) (concat (wrun_ops C cfg w l P)).
Proof. exact wrun_applies_machine_lemma. Qed.
Print Assumptions c04w_run_applies_machine.

(* ... hence the declarative reading of the stored record ([c04_world_refines], for [wrun]) *)
Theorem c04w_world_refines : forall C cfg l w,
  NoDup (c_mods cfg) -> has_mod cfg MLock = true -> Forall (fun ao => o_faults (snd ao) = []) l ->
  filed (w_st w) -> wseeds_keep C cfg w l ->
  forall P u h0, ulookup P (s_users (w_st w)) = Some u -> ltriple u = lrun (lc_of cfg) l_init h0 ->
  let H := h0 ++ concat (wrun_ops C cfg w l P) in
  exists u', ulookup P (s_users (w_st (fst (wrun C cfg w l)))) = Some u' /\
    ltriple u' = lrun (lc_of cfg) l_init H /\
    u_attempts u' = streak (lc_of cfg) (rev H) /\
    u_last u' = last_stamp (lc_of cfg) (rev H) /\
    u_locked u' = locked_until (lc_of cfg) (rev H) /\
    (forall t, locked_at (ltriple u') t = true <-> t < locked_until (lc_of cfg) (rev H)).
Proof. exact wworld_refines_lemma. Qed.
Print Assumptions c04w_world_refines.

(* 5. non-vacuity under the wrapper: auth + lock + remember with [c_wrap_remember := true], LockAfter 3 /
   window 300 s / duration 3600 s; the harness seeds one fresh account with one remember token and puts
   the matching cookie into browser "b"; then the history of [c04_world_example].  The first request is
   on a wrapped route, carries the cookie and no session identity: the wrapper logs the owner in
   ([wrap_pid] = Some ex_pid) and consumes the token before the login handler counts the failure.  Every
   hypothesis of [c04w_world_refines] holds, the operation history is the expected one, the seeded token
   is gone, and the stored record ends with count 0 and the lock instant the unlock left *)
Example c04w_world_example :
  c_wrap_remember ex_wcfg = true /\
  NoDup (c_mods ex_wcfg) /\ has_mod ex_wcfg MLock = true /\
  Forall (fun ao => o_faults (snd ao) = []) ex_history /\
  filed (w_st ex_wstart) /\ wseeds_keep ex_crypto ex_wcfg ex_wstart ex_history /\
  ulookup ex_pid (s_users (w_st ex_wstart)) = Some ex_user /\ ltriple ex_user = l_init /\
  ex_login "wrong" = AReq (ex_wreq "wrong") /\
  wrapped_route (env_of ex_crypto ex_wcfg ex_wstart (ex_wreq "wrong") (ex_oracle 1000)) = true /\
  wrap_pid (env_of ex_crypto ex_wcfg ex_wstart (ex_wreq "wrong") (ex_oracle 1000)) (w_st ex_wstart) = Some ex_pid /\
  concat (wrun_ops ex_crypto ex_wcfg ex_wstart ex_history ex_pid) =
    [LFail 1000; LFail 1010; LFail 1020; LOkBefore 1030; LUnlock 1040; LOkBefore 1050; LOkAfter 1050] /\
  bmem ex_token (rmlookup ex_pid (s_rm (w_st (fst (wrun ex_crypto ex_wcfg ex_wstart ex_history))))) = false /\
  exists u', ulookup ex_pid (s_users (w_st (fst (wrun ex_crypto ex_wcfg ex_wstart ex_history)))) = Some u' /\
    u_attempts u' = 0 /\ u_last u' = 1050 /\ u_locked u' = 1040 - 3600.
Proof. exact wworld_example_lemma. Qed.
Print Assumptions c04w_world_example.
