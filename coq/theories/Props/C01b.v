(* C01 — a session is issued only against a valid credential of that user (continued):
   the remaining login paths, and the statement at the level of whole requests. *)
From AB Require Import World.Step Proofs.EvLogic Proofs.Neutral Proofs.HandlerEvents Proofs.ServeEvents Proofs.StepUid
  Proofs.MonadInv Proofs.Guards Proofs.Guards2 Proofs.Guards3 Proofs.StepGuard.

(* /recover/end: every session event the handler can append is uid-neutral, or writes the pid of
   the user whose stored recovery selector and verifier the submitted 64-byte token matches, whose
   token has not expired, and only when login-after-recovery is configured *)
Theorem c01_recover_guard : forall E h, guarded (g_recover E (h_st h)) (recover_end_post E) h.
Proof. exact recover_end_post_guard. Qed.
Print Assumptions c01_recover_guard.

(* /oauth2/callback/<prov>: likewise; the identity is written only when the state parameter equals
   the one parked in the session, the provider reported no error, the code exchange and the details
   call succeeded, and it is the provider-scoped pid of the record the storer returned for the
   provider's uid (the stored one, or a new one carrying the provider's uid) *)
Theorem c01_oauth2_guard : forall E prov h, guarded (g_oauth2 E prov (h_st h)) (oauth2_end E prov) h.
Proof. exact oauth2_end_guard. Qed.
Print Assumptions c01_oauth2_guard.

(* /2fa/totp/validate: the identity written is the pid of the user CurrentUser found (context user,
   cached pid / session uid, or the pending pid), that user has a TOTP secret, and either the
   submitted recovery code is one of his unused codes or the submitted code verifies against his secret *)
Theorem c01_totp_validate_guard : forall E h, guarded (g_totp E h) (totp_validate_post E) h.
Proof. exact totp_validate_post_guard. Qed.
Print Assumptions c01_totp_validate_guard.

(* /2fa/sms/validate: likewise; either a recovery code of that user, or the code equals the
   non-empty code parked in the session and that code was sent to this user's number *)
Theorem c01_sms_validate_guard : forall E h, guarded (g_sms E h) (sms_validator_post E SPValidate) h.
Proof. exact sms_validator_post_guard. Qed.
Print Assumptions c01_sms_validate_guard.

(* at the start of a request nothing is cached: the user the validators find is the one named by
   the session's uid or by the pending key *)
Theorem c01_validate_user_at_request_start : forall E pk st O u,
  user_source E pk (init_hst st O) u ->
  ulookup (aget k_uid (e_sess E)) (s_users st) = Some u \/ ulookup (aget pk (e_sess E)) (s_users st) = Some u.
Proof. exact user_source_init. Qed.
Print Assumptions c01_validate_user_at_request_start.

(* the reference jar: whatever else an event list does (deletions and wipes included), if the jar
   ends with uid = U and did not start with uid = U, the list contains the event Put uid U *)
Theorem c01_uid_change_needs_put : forall l j U,
  alookup k_uid (apply_events j l) = Some U -> alookup k_uid j <> Some U -> In (Put k_uid U) l.
Proof. exact apply_events_uid_change. Qed.
Print Assumptions c01_uid_change_needs_put.

(* whole requests.  If after POST /login the browser's stored session carries U and it did not
   before, then U is the submitted pid and storage (as it was before the request) holds U with a
   password hash the submitted password verifies against — any configuration with the auth module,
   any hooks in any order, any oracle (storage faults included) *)
Theorem c01_step_login : forall C cfg w req O U,
  q_route req = RLogin -> q_meth req = POST -> has_mod cfg MAuth = true ->
  let b := q_browser req in
  let w' := fst (step C cfg w (AReq req) O) in
  alookup k_uid (jar_get b (w_sess w')) = Some U -> alookup k_uid (jar_get b (w_sess w)) <> Some U ->
  g_login (mkEnv C cfg O req (jar_get b (w_cook w)) (jar_get b (w_sess w))) (w_st w) U.
Proof. exact c01_step_login_lemma. Qed.
Print Assumptions c01_step_login.

(* POST /otp/login: ... then the submitted value hashes to a stored one-time password of U *)
Theorem c01_step_otp : forall C cfg w req O U,
  q_route req = ROtpLogin -> q_meth req = POST -> has_mod cfg MOtp = true ->
  let b := q_browser req in
  let w' := fst (step C cfg w (AReq req) O) in
  alookup k_uid (jar_get b (w_sess w')) = Some U -> alookup k_uid (jar_get b (w_sess w)) <> Some U ->
  g_otp (mkEnv C cfg O req (jar_get b (w_cook w)) (jar_get b (w_sess w))) (w_st w) U.
Proof. exact c01_step_otp_lemma. Qed.
Print Assumptions c01_step_otp.

(* POST /register: ... then U is the submitted pid, it was free before the request, and the
   submitted values passed the policy *)
Theorem c01_step_register : forall C cfg w req O U,
  q_route req = RRegister -> q_meth req = POST -> has_mod cfg MRegister = true ->
  let b := q_browser req in
  let w' := fst (step C cfg w (AReq req) O) in
  alookup k_uid (jar_get b (w_sess w')) = Some U -> alookup k_uid (jar_get b (w_sess w)) <> Some U ->
  Guards2.g_register (mkEnv C cfg O req (jar_get b (w_cook w)) (jar_get b (w_sess w))) (w_st w) U.
Proof. exact c01_step_register_lemma. Qed.
Print Assumptions c01_step_register.

(* POST /recover/end: ... then the submitted token matched U's stored, unexpired recovery token *)
Theorem c01_step_recover : forall C cfg w req O U,
  q_route req = RRecoverEnd -> q_meth req = POST -> has_mod cfg MRecover = true ->
  let b := q_browser req in
  let w' := fst (step C cfg w (AReq req) O) in
  alookup k_uid (jar_get b (w_sess w')) = Some U -> alookup k_uid (jar_get b (w_sess w)) <> Some U ->
  g_recover (mkEnv C cfg O req (jar_get b (w_cook w)) (jar_get b (w_sess w))) (w_st w) U.
Proof. exact c01_step_recover_lemma. Qed.
Print Assumptions c01_step_recover.

(* GET /oauth2/callback/<prov>: ... then the state matched and the provider vouched for U *)
Theorem c01_step_oauth2 : forall C cfg w req O U prov,
  q_route req = ROAuthCallback prov -> q_meth req = GET ->
  has_mod cfg MOAuth2 = true -> bmem prov (c_providers cfg) = true ->
  let b := q_browser req in
  let w' := fst (step C cfg w (AReq req) O) in
  alookup k_uid (jar_get b (w_sess w')) = Some U -> alookup k_uid (jar_get b (w_sess w)) <> Some U ->
  g_oauth2 (mkEnv C cfg O req (jar_get b (w_cook w)) (jar_get b (w_sess w))) prov (w_st w) U.
Proof. exact c01_step_oauth2_lemma. Qed.
Print Assumptions c01_step_oauth2.

(* POST /2fa/totp/validate *)
Theorem c01_step_totp : forall C cfg w req O U,
  q_route req = RTotpValidate -> q_meth req = POST -> c_totp cfg = true ->
  let b := q_browser req in
  let w' := fst (step C cfg w (AReq req) O) in
  alookup k_uid (jar_get b (w_sess w')) = Some U -> alookup k_uid (jar_get b (w_sess w)) <> Some U ->
  g_totp (mkEnv C cfg O req (jar_get b (w_cook w)) (jar_get b (w_sess w))) (init_hst (w_st w) O) U.
Proof. exact c01_step_totp_lemma. Qed.
Print Assumptions c01_step_totp.

(* POST /2fa/sms/validate *)
Theorem c01_step_sms : forall C cfg w req O U,
  q_route req = RSmsValidate -> q_meth req = POST -> c_sms cfg = true ->
  let b := q_browser req in
  let w' := fst (step C cfg w (AReq req) O) in
  alookup k_uid (jar_get b (w_sess w')) = Some U -> alookup k_uid (jar_get b (w_sess w)) <> Some U ->
  g_sms (mkEnv C cfg O req (jar_get b (w_cook w)) (jar_get b (w_sess w))) (init_hst (w_st w) O) U.
Proof. exact c01_step_sms_lemma. Qed.
Print Assumptions c01_step_sms.

(* any request to an application route behind the remember middleware (any method, with or without
   the expire middleware in front): ... then the cookie decoded to a token whose hash was among
   U's stored remember tokens *)
Theorem c01_step_remember : forall C cfg w req O U full tf fr l c e,
  q_route req = RApp full tf fr l c true e ->
  let b := q_browser req in
  let w' := fst (step C cfg w (AReq req) O) in
  alookup k_uid (jar_get b (w_sess w')) = Some U -> alookup k_uid (jar_get b (w_sess w)) <> Some U ->
  g_remember (mkEnv C cfg O req (jar_get b (w_cook w)) (jar_get b (w_sess w))) (w_st w) U.
Proof. exact c01_step_remember_lemma. Qed.
Print Assumptions c01_step_remember.
