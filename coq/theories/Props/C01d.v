(* C01 — a session is issued only against a valid credential of that user (continued):
   the property over whole HISTORIES.

   Props/C01c.v and Props/C01w.v state the property for one step.  The property itself quantifies
   over every history; here the step theorems are lifted over [run] (module routes unwrapped) and
   [wrun] (the router behind a global remember.Middleware) by induction on the history
   (Proofs/HistoryProofs.v).  [fst (run C cfg w0 l1)] is the world after the prefix l1. *)
From AB Require Import World.Step World.Exec Proofs.EvLogic Proofs.Neutral Proofs.HandlerEvents Proofs.ServeEvents
  Proofs.StepUid Proofs.MonadInv Proofs.Guards Proofs.Guards2 Proofs.Guards3 Proofs.StepGuard Proofs.StepAll
  Proofs.Wrapped Proofs.HistoryProofs.
Open Scope Z_scope.

(* ---- vocabulary -------------------------------------------------------------------------------- *)
(* [issued_at C cfg w a O b U]: the step (a, O) taken from world w is one that can have put the
   identity U into browser b's session — verbatim the conclusion of c01_session_only_against_credential:
   a request of browser b whose credential condition for U held in w, or one of the two harness
   actions that write a session jar directly. *)
Theorem c01_issued_at_reading : forall C cfg w a O b U,
  issued_at C cfg w a O b U <->
  (exists req, a = AReq req /\ q_browser req = b /\ credential_shown C cfg w O req U) \/
  a = APlant b k_uid U \/
  (exists j, a = ASetJar false b j /\ alookup k_uid j = Some U).
Proof. exact issued_at_reading. Qed.
Print Assumptions c01_issued_at_reading.

(* the step theorem of C01c in this vocabulary *)
Theorem c01_step_issued : forall C cfg w a O U b,
  alookup k_uid (jar_get b (w_sess (fst (step C cfg w a O)))) = Some U ->
  alookup k_uid (jar_get b (w_sess w)) <> Some U -> issued_at C cfg w a O b U.
Proof. exact step_issued. Qed.
Print Assumptions c01_step_issued.

(* a history of library-level actions only: no APlant, no ASetJar *)
Theorem c01_library_history_reading : forall l,
  library_history l <->
  Forall (fun ao => match fst ao with APlant _ _ _ | ASetJar _ _ _ => False | _ => True end) l.
Proof. reflexivity. Qed.
Print Assumptions c01_library_history_reading.

(* ---- 1. provenance ------------------------------------------------------------------------------ *)
(* Any crypto, configuration, start world, history (any actions, any oracles: storage faults
   included).  If at the end browser b's session names U, then
     - either it named U at the start and after every prefix of the history (it was already there
       and never left),
     - or there is a LAST step (a, O), at position length l1, at which the identity appeared: the
       world w1 that step started from did not name U for b, the world after it does, the step
       satisfies the conclusion of the step theorem in w1 (a credential request of browser b whose
       guard held in w1, or one of the two harness actions), and after every longer prefix the
       session still names U. *)
Theorem c01_history_provenance : forall C cfg w0 l w' os b U,
  run C cfg w0 l = (w', os) -> alookup k_uid (jar_get b (w_sess w')) = Some U ->
  (alookup k_uid (jar_get b (w_sess w0)) = Some U /\
   forall l1 l2, l = l1 ++ l2 -> alookup k_uid (jar_get b (w_sess (fst (run C cfg w0 l1)))) = Some U) \/
  (exists l1 a O l2 w1, l = l1 ++ (a, O) :: l2 /\ fst (run C cfg w0 l1) = w1 /\
     alookup k_uid (jar_get b (w_sess w1)) <> Some U /\
     alookup k_uid (jar_get b (w_sess (fst (step C cfg w1 a O)))) = Some U /\
     issued_at C cfg w1 a O b U /\
     forall l2a l2b, l2 = l2a ++ l2b ->
       alookup k_uid (jar_get b (w_sess (fst (run C cfg w0 (l1 ++ (a, O) :: l2a))))) = Some U).
Proof. exact history_provenance_lemma. Qed.
Print Assumptions c01_history_provenance.

(* From the empty world (no users, no jars), with library-level actions only: EVERY identity in
   EVERY session jar at the end of EVERY history was issued by a request of that browser whose
   credential condition [credential_shown] (password / one-time password / own registration /
   recovery token / OAuth2 callback / second factor / remember token, see c01_g_*_reading in
   Props/C01c.v) held for that identity in the world the request started from; and since that
   request the session has named U without interruption. *)
Theorem c01_history_from_empty : forall C cfg l w' os b U,
  run C cfg empty_world l = (w', os) -> library_history l ->
  alookup k_uid (jar_get b (w_sess w')) = Some U ->
  exists l1 req O l2 w1, l = l1 ++ (AReq req, O) :: l2 /\ fst (run C cfg empty_world l1) = w1 /\
    q_browser req = b /\ credential_shown C cfg w1 O req U /\
    alookup k_uid (jar_get b (w_sess w1)) <> Some U /\
    alookup k_uid (jar_get b (w_sess (fst (step C cfg w1 (AReq req) O)))) = Some U /\
    forall l2a l2b, l2 = l2a ++ l2b ->
      alookup k_uid (jar_get b (w_sess (fst (run C cfg empty_world (l1 ++ (AReq req, O) :: l2a))))) = Some U.
Proof. exact history_from_empty_lemma. Qed.
Print Assumptions c01_history_from_empty.

(* the hypotheses are satisfiable: seed an account, log in with its password, fetch a page, lock
   the account (executable crypto instance, computed) *)
Example c01_history_from_empty_nonvacuous :
  exists C cfg l w' os b U,
    run C cfg empty_world l = (w', os) /\ library_history l /\ alookup k_uid (jar_get b (w_sess w')) = Some U.
Proof. exact hx_provenance_witness. Qed.
Print Assumptions c01_history_from_empty_nonvacuous.

(* ---- 2. the dual: an identity is kept ------------------------------------------------------------ *)
(* [may_remove_identity cfg b a]: verbatim the conclusion of c01_identity_removed_only_by_logout_or_expiry *)
Theorem c01_may_remove_identity_reading : forall cfg b a,
  may_remove_identity cfg b a <->
  (exists req, a = AReq req /\ q_browser req = b /\
     ((q_route req = RLogout /\ q_meth req = c_logout_method cfg /\ q_meth req <> PUT /\ has_mod cfg MLogout = true) \/
      (exists full tf fr l c r, q_route req = RApp full tf fr l c r true))) \/
  (exists j, a = ASetJar false b j /\ ahas k_uid j = false).
Proof. exact may_remove_identity_reading. Qed.
Print Assumptions c01_may_remove_identity_reading.

(* If browser b's session names somebody after the prefix l1, and the rest l2 of the history
   contains no logout request of b (module loaded, configured method), no request of b on an
   application route behind the expire middleware, and no replacement of b's session jar by one
   without identity, then b's session still carries an identity at the end.  (Which identity may
   change: a login as somebody else overwrites it — that is part 1.) *)
Theorem c01_history_identity_kept : forall C cfg w0 l1 l2 b,
  ahas k_uid (jar_get b (w_sess (fst (run C cfg w0 l1)))) = true ->
  Forall (fun ao => ~ may_remove_identity cfg b (fst ao)) l2 ->
  ahas k_uid (jar_get b (w_sess (fst (run C cfg w0 (l1 ++ l2))))) = true.
Proof. exact history_identity_kept_lemma. Qed.
Print Assumptions c01_history_identity_kept.

Example c01_history_identity_kept_nonvacuous :
  exists C cfg w0 l1 (l2 : list (action * oracle)) b,
    l2 <> [] /\ ahas k_uid (jar_get b (w_sess (fst (run C cfg w0 l1)))) = true /\
    Forall (fun ao => ~ may_remove_identity cfg b (fst ao)) l2.
Proof. exact hx_kept_witness. Qed.
Print Assumptions c01_history_identity_kept_nonvacuous.

(* ---- 3. the wrapped deployment ([wstep] / [wrun]) ------------------------------------------------ *)
(* [wissued_at]: verbatim the conclusion of c01w_session_only_against_credential (Props/C01w.v) *)
Theorem c01w_issued_at_reading : forall C cfg w a O b U,
  wissued_at C cfg w a O b U <->
  (exists req, a = AReq req /\ q_browser req = b /\
     let ENV := mkEnv C cfg O req (jar_get (q_browser req) (w_cook w)) (jar_get (q_browser req) (w_sess w)) in
     ((c_wrap_remember cfg && negb (is_app (q_route req)) = false /\ credential_shown C cfg w O req U) \/
      (c_wrap_remember cfg = true /\ is_app (q_route req) = false /\
       (g_remember ENV (w_st w) U \/
        module_credential ENV (init_hst (w_st w) O) U \/
        (exists pid, bempty (aget k_uid (e_sess ENV)) = true /\ g_remember ENV (w_st w) pid /\
                     module_credential (with_sess ENV (half_view pid (e_sess ENV))) (init_hst (w_st w) O) U))))) \/
  a = APlant b k_uid U \/
  (exists j, a = ASetJar false b j /\ alookup k_uid j = Some U).
Proof. exact wissued_at_reading. Qed.
Print Assumptions c01w_issued_at_reading.

Theorem c01w_issued_at_unwrapped : forall C cfg w a O b U,
  c_wrap_remember cfg = false -> (wissued_at C cfg w a O b U <-> issued_at C cfg w a O b U).
Proof. exact wissued_unwrapped. Qed.
Print Assumptions c01w_issued_at_unwrapped.

Theorem c01w_history_provenance : forall C cfg w0 l w' os b U,
  wrun C cfg w0 l = (w', os) -> alookup k_uid (jar_get b (w_sess w')) = Some U ->
  (alookup k_uid (jar_get b (w_sess w0)) = Some U /\
   forall l1 l2, l = l1 ++ l2 -> alookup k_uid (jar_get b (w_sess (fst (wrun C cfg w0 l1)))) = Some U) \/
  (exists l1 a O l2 w1, l = l1 ++ (a, O) :: l2 /\ fst (wrun C cfg w0 l1) = w1 /\
     alookup k_uid (jar_get b (w_sess w1)) <> Some U /\
     alookup k_uid (jar_get b (w_sess (fst (wstep C cfg w1 a O)))) = Some U /\
     wissued_at C cfg w1 a O b U /\
     forall l2a l2b, l2 = l2a ++ l2b ->
       alookup k_uid (jar_get b (w_sess (fst (wrun C cfg w0 (l1 ++ (a, O) :: l2a))))) = Some U).
Proof. exact whistory_provenance_lemma. Qed.
Print Assumptions c01w_history_provenance.

Theorem c01w_history_from_empty : forall C cfg l w' os b U,
  wrun C cfg empty_world l = (w', os) -> library_history l ->
  alookup k_uid (jar_get b (w_sess w')) = Some U ->
  exists l1 req O l2 w1, l = l1 ++ (AReq req, O) :: l2 /\ fst (wrun C cfg empty_world l1) = w1 /\
    q_browser req = b /\ wissued_at C cfg w1 (AReq req) O b U /\
    alookup k_uid (jar_get b (w_sess w1)) <> Some U /\
    alookup k_uid (jar_get b (w_sess (fst (wstep C cfg w1 (AReq req) O)))) = Some U /\
    forall l2a l2b, l2 = l2a ++ l2b ->
      alookup k_uid (jar_get b (w_sess (fst (wrun C cfg empty_world (l1 ++ (AReq req, O) :: l2a))))) = Some U.
Proof. exact whistory_from_empty_lemma. Qed.
Print Assumptions c01w_history_from_empty.

Example c01w_history_from_empty_nonvacuous :
  exists C cfg l w' os b U,
    c_wrap_remember cfg = true /\
    wrun C cfg empty_world l = (w', os) /\ library_history l /\ alookup k_uid (jar_get b (w_sess w')) = Some U.
Proof. exact hx_wprovenance_witness. Qed.
Print Assumptions c01w_history_from_empty_nonvacuous.

(* the complementary step theorem for the wrapped router (new: C01w.v has no such statement).
   Same class of actions as without the wrapper: the wrapper itself only ever PUTS uid / halfauth,
   and whether the logout route reaches its handler does not depend on the wrapper's view. *)
Theorem c01w_identity_removed_only_by_logout_or_expiry : forall C cfg w a O b,
  let w' := fst (wstep C cfg w a O) in
  ahas k_uid (jar_get b (w_sess w)) = true -> ahas k_uid (jar_get b (w_sess w')) = false ->
  (exists req, a = AReq req /\ q_browser req = b /\
     ((q_route req = RLogout /\ q_meth req = c_logout_method cfg /\ q_meth req <> PUT /\ has_mod cfg MLogout = true) \/
      (exists full tf fr l c r, q_route req = RApp full tf fr l c r true))) \/
  (exists j, a = ASetJar false b j /\ ahas k_uid j = false).
Proof. exact wstep_identity_removed_lemma. Qed.
Print Assumptions c01w_identity_removed_only_by_logout_or_expiry.

Theorem c01w_history_identity_kept : forall C cfg w0 l1 l2 b,
  ahas k_uid (jar_get b (w_sess (fst (wrun C cfg w0 l1)))) = true ->
  Forall (fun ao => ~ may_remove_identity cfg b (fst ao)) l2 ->
  ahas k_uid (jar_get b (w_sess (fst (wrun C cfg w0 (l1 ++ l2))))) = true.
Proof. exact whistory_identity_kept_lemma. Qed.
Print Assumptions c01w_history_identity_kept.

Example c01w_history_identity_kept_nonvacuous :
  exists C cfg w0 l1 (l2 : list (action * oracle)) b,
    c_wrap_remember cfg = true /\
    l2 <> [] /\ ahas k_uid (jar_get b (w_sess (fst (wrun C cfg w0 l1)))) = true /\
    Forall (fun ao => ~ may_remove_identity cfg b (fst ao)) l2.
Proof. exact hx_wkept_witness. Qed.
Print Assumptions c01w_history_identity_kept_nonvacuous.

(* ---- histories: [run] / [wrun] compose ----------------------------------------------------------- *)
Theorem c01_run_app : forall C cfg l1 l2 w,
  fst (run C cfg w (l1 ++ l2)) = fst (run C cfg (fst (run C cfg w l1)) l2).
Proof. exact run_app_fst. Qed.
Print Assumptions c01_run_app.

Theorem c01w_wrun_app : forall C cfg l1 l2 w,
  fst (wrun C cfg w (l1 ++ l2)) = fst (wrun C cfg (fst (wrun C cfg w l1)) l2).
Proof. exact wrun_app_fst. Qed.
Print Assumptions c01w_wrun_app.
