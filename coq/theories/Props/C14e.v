(* C14 (continued): the uid the callback binds is the provider's id string itself. *)
From AB Require Import Model.ProviderJson.

(* two different id strings never give the same uid: the adapters do not normalise, round or truncate *)
Theorem c14_provider_uid_injective : forall a b, provider_uid (JStr a) = provider_uid (JStr b) -> a = b.
Proof. intros a b H. inversion H. reflexivity. Qed.
Print Assumptions c14_provider_uid_injective.

(* an id that is not a JSON string is refused - in particular a numeric id is never converted (a conversion through
   float64 would identify ids above 2^53) *)
Theorem c14_provider_uid_refuses_non_strings : provider_uid JNum = None /\ provider_uid JBool = None /\ provider_uid JObj = None.
Proof. repeat split. Qed.
Print Assumptions c14_provider_uid_refuses_non_strings.

(* a uid that was accepted is either the id string verbatim or empty (no id reported) *)
Theorem c14_provider_uid_cases : forall v u, provider_uid v = Some u -> v = JStr u \/ (u = [] /\ (v = JNull \/ v = JAbsent)).
Proof. intros v u H. destruct v; inversion H; auto. Qed.
Print Assumptions c14_provider_uid_cases.
