(* C07 — codec part: a remember token names exactly the account it was made for, for EVERY
   account identifier (any bytes, separators included). Flow theorems are added below as
   they are proved. *)
From AB Require Import Model.Codecs Proofs.CodecProofs.

Theorem c07_parse_make : forall pid nonce, length nonce = 32%nat -> rm_parse (rm_make pid nonce) = Some pid.
Proof. exact c07_parse_make_lemma. Qed.
Print Assumptions c07_parse_make.

(* conversely a cookie that parses is some pid followed by the separator and 32 bytes *)
Theorem c07_parse_shape : forall raw pid, rm_parse raw = Some pid ->
  exists nonce, raw = rm_make pid nonce /\ length nonce = 32%nat.
Proof. exact c07_parse_shape_lemma. Qed.
Print Assumptions c07_parse_shape.

(* two tokens are equal only if they were made for the same account with the same nonce *)
Theorem c07_make_inj : forall p1 n1 p2 n2, length n1 = 32%nat -> length n2 = 32%nat ->
  rm_make p1 n1 = rm_make p2 n2 -> p1 = p2 /\ n1 = n2.
Proof. exact c07_make_inj_lemma. Qed.
Print Assumptions c07_make_inj.

(* the defect that was repaired (kept as a refutation of the OLD parse): with a separator
   inside the PID, as in every OAuth2 PID, the first-separator parse names another account *)
Theorem c07_old_parse_refuted : exists pid nonce, length nonce = 32%nat /\ rm_parse_first (rm_make pid nonce) <> Some pid.
Proof. exact c07_old_parse_refuted_lemma. Qed.
Print Assumptions c07_old_parse_refuted.
