(* C18, continued — no handler panics, whatever the backend does: the handlers that fire event
   hooks, the documented middleware stack, and the whole router. *)
From AB Require Import World.Handlers Proofs.Misc Proofs.NoPanic.

(* [np m]: from every state and under every fault plan, m returns a value or an error, never a panic *)

(* with a user in the context, firing ANY event (any module set, any hook order) cannot panic
   and leaves a user in the context *)
Theorem c18_no_panic_fire : forall E e rm h r h',
  h_cuser h <> None -> fire E e rm h = (r, h') -> r <> Panic /\ h_cuser h' <> None.
Proof. exact npc_fire. Qed.
Print Assumptions c18_no_panic_fire.

(* password login *)
Theorem c18_no_panic_login : forall E, np (login_post E).
Proof. exact np_login_post. Qed.
Print Assumptions c18_no_panic_login.

(* one-time-password login *)
Theorem c18_no_panic_otp_login : forall E, np (otp_login_post E).
Proof. exact np_otp_login_post. Qed.
Print Assumptions c18_no_panic_otp_login.

(* registration *)
Theorem c18_no_panic_register : forall E, np (register_post E).
Proof. exact np_register_post. Qed.
Print Assumptions c18_no_panic_register.

(* end of password recovery, with or without login *)
Theorem c18_no_panic_recover_end : forall E, np (recover_end_post E).
Proof. exact np_recover_end_post. Qed.
Print Assumptions c18_no_panic_recover_end.

(* OAuth2 callback *)
Theorem c18_no_panic_oauth2_end : forall E p, np (oauth2_end E p).
Proof. exact np_oauth2_end. Qed.
Print Assumptions c18_no_panic_oauth2_end.

(* TOTP code validation at login *)
Theorem c18_no_panic_totp_validate : forall E, np (totp_validate_post E).
Proof. exact np_totp_validate_post. Qed.
Print Assumptions c18_no_panic_totp_validate.

(* SMS pages: confirm, remove, validate *)
Theorem c18_no_panic_sms_validator : forall E pg, np (sms_validator_post E pg).
Proof. exact np_sms_validator_post. Qed.
Print Assumptions c18_no_panic_sms_validator.

(* TOTP set-up confirmation *)
Theorem c18_no_panic_totp_confirm : forall E, np (totp_confirm_post E).
Proof. exact np_totp_confirm_post. Qed.
Print Assumptions c18_no_panic_totp_confirm.

(* TOTP removal *)
Theorem c18_no_panic_totp_remove : forall E, np (totp_remove_post E).
Proof. exact np_totp_remove_post. Qed.
Print Assumptions c18_no_panic_totp_remove.

(* the documented stack expire -> remember -> access middleware -> lock -> confirm -> app, for every
   choice of requirements and middlewares: LoadCurrentUserP in the lock / confirm middlewares
   is reached only after the access middleware put a user into the context *)
Theorem c18_no_panic_app_stack : forall E full tf fr l c r e, np (app_stack E full tf fr l c r e).
Proof. exact np_app_stack. Qed.
Print Assumptions c18_no_panic_app_stack.

(* every request, every route *)
Theorem c18_no_panic_serve : forall E, np (serve E).
Proof. exact np_serve. Qed.
Print Assumptions c18_no_panic_serve.
