(* C18 — backend failures (partial: the exhaustive fault enumeration with pred_c18 decides the
   rest on the implementation; the model has the same fault oracle and must agree on every facet). *)
From AB Require Import World.Handlers Proofs.MonadInv Proofs.Misc Proofs.StoreLogic Proofs.OneTimeProofs Proofs.Neutral.

(* a failed backend call is an error outcome: no value, and nothing changes — not storage, not
   the pending client-state events, not what was written, no mail, no SMS *)
Theorem c18_backend_fault_is_error : forall E (A : Type) k (body : M A) h r h' ek,
  fault_at (h_ncalls h) (o_faults (e_O E)) = Some ek ->
  backend (e_O E) k body h = (r, h') ->
  (exists e, r = Err e) /\ h_st h' = h_st h /\ h_sev h' = h_sev h /\ h_cev h' = h_cev h /\ h_out h' = h_out h /\
  h_mails h' = h_mails h /\ h_smss h' = h_smss h.
Proof. exact backend_fault_is_error. Qed.
Print Assumptions c18_backend_fault_is_error.

(* one-time password login: either only uid-neutral events were appended (nobody logged in),
   or the consumption of the matched OTP is in storage — under every fault plan *)
Theorem c18_otp_no_session_without_consumption : forall (E : env) h r h',
  otp_login_post E h = (r, h') ->
  (exists ls, h_sev h' = h_sev h ++ ls /\ Forall sess_neutral ls) \/
  (exists u i,
     ulookup (aget (pid_field E) (values E)) (s_users (h_st h)) = Some u /\
     otp_match (sha (e_C E) (aget f_password (values E))) (split_otps (u_otps u)) 0%nat = Some (Some i) /\
     (exists su, ulookup (u_pid u) (s_users (h_st h')) = Some su /\ upto_lock (otp_consumed u i) su) /\
     (forall p, p <> u_pid u -> ulookup p (s_users (h_st h')) = ulookup p (s_users (h_st h)))).
Proof. exact otp_login_cases. Qed.
Print Assumptions c18_otp_no_session_without_consumption.

(* handlers that fire no event hooks never panic, whatever the backend does (the repaired
   recover start among them) *)
Theorem c18_no_panic_recover_start : forall E, np (recover_start_post E).
Proof. exact np_recover_start_post. Qed.
Print Assumptions c18_no_panic_recover_start.
Theorem c18_no_panic_confirm : forall E, np (confirm_get E).
Proof. exact np_confirm_get. Qed.
Print Assumptions c18_no_panic_confirm.
Theorem c18_no_panic_logout : forall E, np (logout E).
Proof. exact np_logout. Qed.
Print Assumptions c18_no_panic_logout.
Theorem c18_no_panic_remember : forall E, np (remember_authenticate E).
Proof. exact np_remember_authenticate. Qed.
Print Assumptions c18_no_panic_remember.
Theorem c18_no_panic_otp_add : forall E, np (otp_add_post E).
Proof. exact np_otp_add_post. Qed.
Print Assumptions c18_no_panic_otp_add.
