(* C09 — idle expiry: property theorems (proofs live in Proofs/ExpireProofs.v). *)
From AB Require Import World.Handlers World.Step Proofs.ExpireProofs.
Open Scope Z_scope.

(* The expire middleware, for every configuration, request, storage and starting state.
   With nobody logged in it records nothing and hands the session on unchanged.  With a user
   logged in and a stamp d in the session: if d + ExpireAfter <= now the session is expired —
   it records exactly "delete all but the whitelist, delete uid, delete last_action" and
   everything downstream sees only the whitelisted part of the session; if
   now < d + ExpireAfter the session is alive — it records exactly one event, the stamp set
   to now, and downstream sees the whole session.  So: expired iff stamp + ExpireAfter <= now.
   It never records a cookie event. *)
Theorem c09_expire_mw_spec : forall E h r h', expire_mw E h = (r, h') ->
  (ahas k_uid (e_sess E) = false -> r = Ok (e_sess E) /\ h_sev h' = h_sev h) /\
  (ahas k_uid (e_sess E) = true -> forall ds d,
     alookup k_last_action (e_sess E) = Some ds -> zparse ds = Some d ->
     (d + c_expire_after (e_cfg E) <= o_now (e_O E) ->
        r = Ok (filter (fun kv => bmem (fst kv) (c_whitelist (e_cfg E))) (e_sess E)) /\
        h_sev h' = h_sev h ++ [DelAll (bjoin ","%byte (c_whitelist (e_cfg E))); Del k_uid; Del k_last_action]) /\
     (o_now (e_O E) < d + c_expire_after (e_cfg E) ->
        r = Ok (e_sess E) /\ h_sev h' = h_sev h ++ [Put k_last_action (zdec (o_now (e_O E)))])) /\
  h_cev h' = h_cev h.
Proof. exact expire_mw_spec_lemma. Qed.
Print Assumptions c09_expire_mw_spec.

(* The same for a logged-in session that carries no stamp at all: the model reads the
   missing stamp as "expired iff ExpireAfter <= 0"; the two outcomes are the same two. *)
Theorem c09_expire_mw_no_stamp : forall E h r h', expire_mw E h = (r, h') ->
  ahas k_uid (e_sess E) = true -> alookup k_last_action (e_sess E) = None ->
  (c_expire_after (e_cfg E) <= 0 ->
     r = Ok (filter (fun kv => bmem (fst kv) (c_whitelist (e_cfg E))) (e_sess E)) /\
     h_sev h' = h_sev h ++ [DelAll (bjoin ","%byte (c_whitelist (e_cfg E))); Del k_uid; Del k_last_action]) /\
  (0 < c_expire_after (e_cfg E) ->
     r = Ok (e_sess E) /\ h_sev h' = h_sev h ++ [Put k_last_action (zdec (o_now (e_O E)))]).
Proof. exact expire_mw_no_stamp_lemma. Qed.
Print Assumptions c09_expire_mw_no_stamp.

(* What the rest of the request sees of an expired session: a key outside the whitelist
   reads as absent, a whitelisted key reads exactly as it does in the real session. *)
Theorem c09_expired_view_hides : forall (wl : list bytes) (s : amap),
  let v := filter (fun kv => bmem (fst kv) wl) s in
  (forall k, bmem k wl = false -> alookup k v = None) /\
  (forall k, bmem k wl = true -> alookup k v = alookup k s).
Proof. exact expired_view_hides_lemma. Qed.
Print Assumptions c09_expired_view_hides.

(* In particular nobody is logged in, in that view, unless the application itself put the
   user-id key on the whitelist. *)
Theorem c09_expired_view_no_uid : forall (wl : list bytes) (s : amap),
  bmem k_uid wl = false -> ahas k_uid (filter (fun kv => bmem (fst kv) wl) s) = false.
Proof. exact expired_view_no_uid_lemma. Qed.
Print Assumptions c09_expired_view_no_uid.

(* One request in the vocabulary of the sequence statement: with a user and a stamp d, the
   middleware keeps the session (its only event is the refreshed stamp) exactly when the
   one-step survival test of the sequence statement below passes. *)
Theorem c09_step_survives : forall E h r h' ds d, expire_mw E h = (r, h') ->
  ahas k_uid (e_sess E) = true -> alookup k_last_action (e_sess E) = Some ds -> zparse ds = Some d ->
  (survives (c_expire_after (e_cfg E)) d [o_now (e_O E)] = true <->
   h_sev h' = h_sev h ++ [Put k_last_action (zdec (o_now (e_O E)))]).
Proof. exact expire_mw_step_survives_lemma. Qed.
Print Assumptions c09_step_survives.

(* After such a request the store holds the new stamp, the stamp reads back as this
   request's time, and the user id is untouched: the next request is measured from here. *)
Theorem c09_refresh_jar : forall (j : amap) (now : Z), Z.abs now < 10 ^ 40 ->
  let j' := apply_events j [Put k_last_action (zdec now)] in
  alookup k_last_action j' = Some (zdec now) /\ zparse (zdec now) = Some now /\
  alookup k_uid j' = alookup k_uid j.
Proof. exact expire_refresh_jar_lemma. Qed.
Print Assumptions c09_refresh_jar.

(* Sequences.  [survives E t0 ts] replays the middleware's decision over requests at times
   ts starting from stamp t0 (each surviving request moves the stamp to its own time);
   [gaps_below E t0 ts] says every gap between consecutive instants of t0 :: ts is shorter
   than E.  The session survives the whole run iff every gap is below ExpireAfter; total
   elapsed time does not matter, one gap of ExpireAfter or more ends it. *)
Theorem c09_survives_iff_gaps : forall (E t0 : Z) (ts : list Z),
  survives E t0 ts = true <-> gaps_below E t0 ts.
Proof. exact survives_iff_gaps_lemma. Qed.
Print Assumptions c09_survives_iff_gaps.

(* and once it has failed to survive a prefix of the run, nothing later revives it *)
Theorem c09_survives_prefix : forall (E t0 : Z) (a b : list Z),
  survives E t0 (a ++ b) = true -> survives E t0 a = true.
Proof. exact survives_app_lemma. Qed.
Print Assumptions c09_survives_prefix.
