(* C09 — theorems in progress; this file is replaced as they are proved *)
From AB Require Import Check.WorldCheck.
Theorem c09_placeholder : True. Proof. exact I. Qed.
Print Assumptions c09_placeholder.
