(* C06 (continued) — after a password change the old password is dead, over whole HISTORIES.

   Props/C06.v: the stored hash of p' verifies p' and nothing else; UpdatePassword and recover-end store
   that hash.  Here the consequence for every continuation:

     once account U's stored password is the hash of p'  (after Authboss.UpdatePassword U p' that
     reported no error: c06_update_password_establishes; after a recover-end request that changed U's
     stored password: c06_recover_establishes, with p' the submitted password),
     along EVERY history l1 that contains no further password change of U - any other requests of any
     browsers, logins, failed logins, lockouts, 2FA set-up, registrations, OAuth2, administrative
     calls on U or on others, backend faults -
     a /login request carrying a password q <> p' (of any length) never puts U's identity into a
     session that did not hold it.

   Vocabulary (Proofs/History2.v, Proofs/PwKeep.v):
     stored_pw C U p w       U has a record in w and its password field is pwhash C p;
     changes_password U a    a is UpdatePassword U _, a harness seed of U, or a recover-end POST (of
                             anybody: the account it resets is found through the token) - the ONLY steps
                             that can change U's stored password (c06_step_keeps_password);
     pw_quiet U l            no step of l is one of those;
     sub_password cfg req    the password field of the request as the handlers read it.
   Proofs/PwKeep.v is a Hoare logic over the handler monad ("every stored record keeps the password the
   request found under its pid") proved for every primitive, every hook in any module order, every
   middleware, every route handler but the recover-end POST, and the administrative operations. *)
From AB Require Import World.Step World.Exec Proofs.TwoFactorProofs Proofs.HistoryProofs Proofs.PwKeep Proofs.History2.

Theorem c06_stored_pw_reading : forall C U p w,
  stored_pw C U p w <-> exists u, ulookup U (s_users (w_st w)) = Some u /\ u_password u = pwhash C p.
Proof. reflexivity. Qed.
Print Assumptions c06_stored_pw_reading.

Theorem c06_changes_password_reading : forall U a,
  changes_password U a <->
  match a with
  | AUpdatePassword pid _ => pid = U
  | ASeed u _ => u_pid u = U
  | AReq req => q_route req = RRecoverEnd /\ q_meth req = POST
  | _ => False
  end.
Proof. exact changes_password_reading. Qed.
Print Assumptions c06_changes_password_reading.

Theorem c06_pw_quiet_reading : forall U l,
  pw_quiet U l <-> Forall (fun ao => ~ changes_password U (fst ao)) l.
Proof. reflexivity. Qed.
Print Assumptions c06_pw_quiet_reading.

Theorem c06_sub_password_reading : forall C cfg O req cook sess,
  sub_password cfg req = aget f_password (MonadInv.values (mkEnv C cfg O req cook sess)).
Proof. reflexivity. Qed.
Print Assumptions c06_sub_password_reading.

(* which steps can change a stored password: every other step - any request on any route with any
   module set, any administrative call, seeds of other accounts, faults anywhere - leaves U's record
   in place with the password it had *)
Theorem c06_step_keeps_password : forall C cfg w a O U u,
  filed (w_st w) -> ~ changes_password U a ->
  ulookup U (s_users (w_st w)) = Some u ->
  exists u', ulookup U (s_users (w_st (fst (step C cfg w a O)))) = Some u' /\ u_password u' = u_password u.
Proof. exact step_keeps_password. Qed.
Print Assumptions c06_step_keeps_password.

Theorem c06_history_keeps_password : forall C cfg U p l w,
  filed (w_st w) -> pw_quiet U l -> stored_pw C U p w -> stored_pw C U p (fst (run C cfg w l)).
Proof. exact run_keeps_stored_pw. Qed.
Print Assumptions c06_history_keeps_password.

(* one login request with a wrong password *)
Theorem c06_wrong_password_no_session : forall C cfg U p' w req O b,
  crypto_laws C -> stored_pw C U p' w -> pw_dom p' ->
  q_route req = RLogin -> sub_password cfg req <> p' ->
  alookup k_uid (jar_get b (w_sess w)) <> Some U ->
  alookup k_uid (jar_get b (w_sess (fst (step C cfg w (AReq req) O)))) <> Some U.
Proof. exact step_wrong_password_no_session. Qed.
Print Assumptions c06_wrong_password_no_session.

(* THE THEOREM *)
Theorem c06_old_password_revoked : forall C cfg U p' w0 l1 req O b,
  crypto_laws C -> filed (w_st w0) -> stored_pw C U p' w0 -> pw_dom p' ->
  pw_quiet U l1 ->
  q_route req = RLogin -> sub_password cfg req <> p' ->
  let w1 := fst (run C cfg w0 l1) in
  alookup k_uid (jar_get b (w_sess w1)) <> Some U ->
  alookup k_uid (jar_get b (w_sess (fst (step C cfg w1 (AReq req) O)))) <> Some U.
Proof. exact old_password_revoked_lemma. Qed.
Print Assumptions c06_old_password_revoked.

(* the same inside one history l = l1 ++ login :: l2 *)
Theorem c06_old_password_revoked_history : forall C cfg U p' w0 l l1 req O l2 b,
  crypto_laws C -> filed (w_st w0) -> stored_pw C U p' w0 -> pw_dom p' ->
  l = l1 ++ (AReq req, O) :: l2 -> pw_quiet U l ->
  q_route req = RLogin -> sub_password cfg req <> p' ->
  alookup k_uid (jar_get b (w_sess (fst (run C cfg w0 l1)))) <> Some U ->
  alookup k_uid (jar_get b (w_sess (fst (run C cfg w0 (l1 ++ [(AReq req, O)]))))) <> Some U.
Proof. exact old_password_revoked_history. Qed.
Print Assumptions c06_old_password_revoked_history.

(* where the hypothesis comes from, 1: UpdatePassword that reported no error (no backend fault hit
   it, the password fits bcrypt).  It also emptied U's remember tokens. *)
Theorem c06_update_password_establishes : forall C cfg U p' w O,
  filed (w_st w) -> ob_err (snd (step C cfg w (AUpdatePassword U p') O)) = false ->
  let w' := fst (step C cfg w (AUpdatePassword U p') O) in
  stored_pw C U p' w' /\ pw_dom p' /\ rmlookup U (s_rm (w_st w')) = [] /\ filed (w_st w').
Proof. exact update_password_establishes. Qed.
Print Assumptions c06_update_password_establishes.

(* 2: a recover-end POST after which U's stored password is not what it was (whatever the request
   returned: the password is saved before the hooks run) *)
Theorem c06_recover_establishes : forall C cfg U w req O a b0,
  q_route req = RRecoverEnd -> q_meth req = POST ->
  ulookup U (s_users (w_st w)) = Some a ->
  ulookup U (s_users (w_st (fst (step C cfg w (AReq req) O)))) = Some b0 ->
  u_password b0 <> u_password a ->
  stored_pw C U (sub_password cfg req) (fst (step C cfg w (AReq req) O)) /\ pw_dom (sub_password cfg req).
Proof. exact recover_establishes. Qed.
Print Assumptions c06_recover_establishes.

(* the hypotheses are satisfiable and the conclusion is not "nobody can log in": seed, UpdatePassword,
   page view + lock + unlock, then the old password opens no session and the new one does
   (executable crypto, computed) *)
Example c06_old_password_revoked_nonvacuous :
  ob_err (snd (step XC (hx_cfg false) pc_seeded (AUpdatePassword hx_pid pc_new) hx_oracle)) = false /\
  pw_quiet hx_pid pc_cont /\
  q_route (pc_login (bs "password1")) = RLogin /\ sub_password (hx_cfg false) (pc_login (bs "password1")) <> pc_new /\
  alookup k_uid (jar_get (bs "b1") (w_sess (fst (run XC (hx_cfg false) pc_w0 pc_cont)))) = None /\
  alookup k_uid (jar_get (bs "b1") (w_sess (fst (run XC (hx_cfg false) pc_w0
     (pc_cont ++ [(AReq (pc_login (bs "password1")), hx_oracle)]))))) = None /\
  alookup k_uid (jar_get (bs "b1") (w_sess (fst (run XC (hx_cfg false) pc_w0
     (pc_cont ++ [(AReq (pc_login pc_new), hx_oracle)]))))) = Some hx_pid.
Proof. exact pc_witness. Qed.
Print Assumptions c06_old_password_revoked_nonvacuous.
