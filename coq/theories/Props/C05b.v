(* C05 (continued) — a confirmation / recovery token works exactly once, as two-run theorems:
   the first run accepts the token; a second run that submits the same token value - any other
   environment with the same crypto, any browser / session / oracle (backend faults included) -
   from the storage the first run left changes no record and logs nobody in. *)
From AB Require Import World.Handlers Proofs.Neutral Proofs.MonadInv Proofs.StoreLogic Proofs.TokenProofs
  Proofs.TwoFactorProofs Proofs.OnceProofs.

(* Confirm.  First run: the request changed storage, which by c05_confirm_accept means it confirmed
   the account whose stored selector / verifier are the hashes of the token's halves.
   Hypotheses: [filed] - user table with distinct keys, each record under its own pid (the selector
   lookup scans the table); [csel_unique] - two stored records with the same non-empty confirmation
   selector are the same record; the hash of the token's first half is not the empty string (an empty
   selector is what every account without a pending confirmation carries).
   Second run: storage is unchanged, only uid-neutral session events are appended, and the account
   the first run confirmed is still stored as it was left (confirmed, selector and verifier cleared). *)
Theorem c05_confirm_once : forall E1 h1 r1 h1' E2 h2 r2 h2',
  confirm_get E1 h1 = (r1, h1') -> h_st h1' <> h_st h1 ->
  filed (h_st h1) -> csel_unique (h_st h1) ->
  (forall raw, b64url_dec (aget f_cnf (values E1)) = Some raw -> sha (e_C E1) (half1 raw) <> []) ->
  e_C E2 = e_C E1 -> aget f_cnf (values E2) = aget f_cnf (values E1) -> h_st h2 = h_st h1' ->
  confirm_get E2 h2 = (r2, h2') ->
  h_st h2' = h_st h2 /\
  (exists ls, h_sev h2' = h_sev h2 ++ ls /\ Forall sess_neutral ls) /\
  (exists u, ulookup (u_pid u) (s_users (h_st h1)) = Some u /\
             ulookup (u_pid u) (s_users (h_st h2')) =
               Some (u <| u_csel := [] |> <| u_cver := [] |> <| u_confirmed := true |>)).
Proof. exact confirm_once_lemma. Qed.
Print Assumptions c05_confirm_once.

(* Recover.  First run: the request changed the user table, which by c05_recover_accept means the
   password of the account matching the token was replaced and its token cleared (any event hooks
   included).  [ctx_ok h1] holds at the start of every request (no context user: ctx_ok_none).
   Second run (same token value, ANY password): storage is unchanged - no password changes - and only
   uid-neutral session events are appended - nobody is logged in, also when login-after-recovery is
   configured; the account still carries the password the first run set. *)
Theorem c05_recover_once : forall E1 h1 r1 h1' E2 h2 r2 h2',
  recover_end_post E1 h1 = (r1, h1') -> s_users (h_st h1') <> s_users (h_st h1) ->
  filed (h_st h1) -> ctx_ok h1 -> rsel_unique (h_st h1) ->
  (forall raw, b64url_dec (aget f_token (values E1)) = Some raw -> sha (e_C E1) (half1 raw) <> []) ->
  e_C E2 = e_C E1 -> aget f_token (values E2) = aget f_token (values E1) -> h_st h2 = h_st h1' ->
  recover_end_post E2 h2 = (r2, h2') ->
  h_st h2' = h_st h2 /\
  (exists ls, h_sev h2' = h_sev h2 ++ ls /\ Forall sess_neutral ls) /\
  (exists u su, ulookup (u_pid u) (s_users (h_st h1)) = Some u /\
                ulookup (u_pid u) (s_users (h_st h2')) = Some su /\
                u_password su = pwhash (e_C E1) (aget f_password (values E1)) /\ u_rsel su = [] /\ u_rver su = []).
Proof. exact recover_once_lemma. Qed.
Print Assumptions c05_recover_once.

(* a recover-end request whose token selects no stored record appends only uid-neutral session events *)
Theorem c05_recover_no_record_no_login : forall E h r h',
  recover_end_post E h = (r, h') ->
  (forall raw, b64url_dec (aget f_token (values E)) = Some raw ->
     ufind (fun u => beqb (u_rsel u) (selector_of E raw)) (s_users (h_st h)) = None) ->
  exists ls, h_sev h' = h_sev h ++ ls /\ Forall sess_neutral ls.
Proof. exact recover_end_no_record_neutral. Qed.
Print Assumptions c05_recover_no_record_no_login.
