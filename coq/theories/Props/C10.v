(* C10 — logout: property theorems (proofs live in Proofs/LogoutProofs.v). *)
From AB Require Import World.Handlers World.Step Proofs.EvLogic Proofs.LogoutProofs.

(* Whatever the configuration, the request, the storage, the injected backend faults and the
   state the handler starts from, and whatever way the logout handler ends (normally or with
   the renderer's error in API mode), the session events it has appended are exactly:
   delete everything outside the configured whitelist, delete the user id, delete the
   half-auth mark, delete the last-action stamp — followed by nothing, or (form mode only) by
   the success flash; and the cookie events it has appended are exactly: delete the
   remember-me cookie.  The handler cannot end without having recorded all of them. *)
Theorem c10_logout_events : forall E h r h', logout E h = (r, h') ->
  exists tail ctail,
    h_sev h' = h_sev h ++ [DelAll (bjoin ","%byte (c_whitelist (e_cfg E))); Del k_uid; Del k_halfauth; Del k_last_action] ++ tail /\
    (tail = [] \/ tail = [Put k_flash_ok v_flash]) /\
    h_cev h' = h_cev h ++ [Del k_rm] ++ ctail /\ ctail = [].
Proof. exact logout_events_lemma. Qed.
Print Assumptions c10_logout_events.

(* What that event list does to ANY session jar when the reference store applies it: every
   key still present afterwards is either a key that the store's own reading of the
   whitelist (split of the comma-joined list) accepts and that is none of uid / halfauth /
   last_action, or it is the success flash; and every such accepted key other than those
   four keeps exactly the value it had.  So the user identity is gone, nothing outside the
   whitelist is left, and whitelisted application data is untouched. *)
Theorem c10_logout_jar : forall (j : amap) (wl : list bytes) (tail : list csevent),
  (tail = [] \/ tail = [Put k_flash_ok v_flash]) ->
  let j' := apply_events j ([DelAll (bjoin ","%byte wl); Del k_uid; Del k_halfauth; Del k_last_action] ++ tail) in
  (forall k, ahas k j' = true ->
     (bmem k (bsplit ","%byte (bjoin ","%byte wl)) = true /\ k <> k_uid /\ k <> k_halfauth /\ k <> k_last_action)
     \/ k = k_flash_ok) /\
  (forall k, bmem k (bsplit ","%byte (bjoin ","%byte wl)) = true ->
     k <> k_uid -> k <> k_halfauth -> k <> k_last_action -> k <> k_flash_ok ->
     alookup k j' = alookup k j).
Proof. exact logout_jar_lemma. Qed.
Print Assumptions c10_logout_jar.

(* A request to the logout route whose method is not the configured logout method never
   reaches the handler: the router answers 404 (405 for PUT) and no session event and no
   cookie event of any kind is recorded (the predicate "False" holds of every recorded
   event, so there is none), whatever else is in the request or the storage. *)
Theorem c10_logout_wrong_method : forall E : env,
  q_route (e_req E) = RLogout ->
  meth_eqb (q_meth (e_req E)) (c_logout_method (e_cfg E)) = false ->
  evs_all (fun _ => False) (fun _ => False) (serve E).
Proof. exact logout_wrong_method_lemma. Qed.
Print Assumptions c10_logout_wrong_method.
