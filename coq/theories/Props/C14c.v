(* C14 (continued) — "On success the session identifies precisely the (provider, uid) pair
   reported by the provider": what a callback that writes an identity has checked, which identity
   it writes, and what storage holds under it afterwards.

   appends_uid h h' U (Proofs/FlowProofs.v): the session events appended between h and h' contain
   Put "uid" U.  keyed st (Proofs/StoreLogic.v): every record sits under its own pid.

   Visible hypothesis: the record already stored under the provider-scoped pid, if any, carries the
   provider's uid in u_ouid.  The handler writes MakeOAuth2PID(provider, user.GetOAuth2UID()) taking
   the uid from the record the storer handed back (oauth2.go), so without it a store that files a
   record with another u_ouid under this pid makes the session name a different account.  Records
   created by the callback itself satisfy it (conclusion: u_ouid su = the provider's uid). *)
From AB Require Import World.Handlers Proofs.StoreLogic Proofs.FlowProofs Proofs.TwoFactor2 Model.Codecs.

Theorem c14_success_binds_identity : forall (E : env) prov h r h' U,
  keyed (h_st h) ->
  (forall u0, ulookup (make_oauth2_pid prov (pa_uid (o_provider (e_O E)))) (s_users (h_st h)) = Some u0 ->
              u_ouid u0 = pa_uid (o_provider (e_O E))) ->
  oauth2_end E prov h = (r, h') -> appends_uid h h' U ->
  U = make_oauth2_pid prov (pa_uid (o_provider (e_O E))) /\
  alookup k_oauth_state (e_sess E) = Some (form_value E f_state) /\
  bempty (form_value E f_error) = true /\
  pa_exchange_ok (o_provider (e_O E)) = true /\ pa_details_ok (o_provider (e_O E)) = true /\
  exists su, ulookup U (s_users (h_st h')) = Some su /\
             u_pid su = U /\ u_oprov su = prov /\ u_ouid su = pa_uid (o_provider (e_O E)) /\
             u_otoken su = pa_token (o_provider (e_O E)) /\ u_oexp su = pa_expiry (o_provider (e_O E)) /\
             (bempty (pa_refresh (o_provider (e_O E))) = false -> u_orefresh su = pa_refresh (o_provider (e_O E))).
Proof. exact oauth2_success_binds_lemma. Qed.
Print Assumptions c14_success_binds_identity.

(* the handler's identifier is the codec of Model/Codecs.v (Props/C14.v), hence injective on
   (provider, uid) for provider names free of the separator byte and ALL uid byte strings *)
Theorem c14_pid_is_codec : forall p u, make_oauth2_pid p u = make_pid p u.
Proof. exact make_oauth2_pid_codec. Qed.
Print Assumptions c14_pid_is_codec.

Theorem c14_pid_injective : forall p1 u1 p2 u2, no_semi p1 -> no_semi p2 ->
  make_oauth2_pid p1 u1 = make_oauth2_pid p2 u2 -> p1 = p2 /\ u1 = u2.
Proof. exact make_oauth2_pid_inj. Qed.
Print Assumptions c14_pid_injective.

(* two successful callbacks - any two requests, sessions, oracles, storages - that write the same
   identity U were answered the same (provider, uid) pair *)
Theorem c14_same_identity_same_pair : forall E1 prov1 h1 r1 h1' E2 prov2 h2 r2 h2' U,
  no_semi prov1 -> no_semi prov2 ->
  keyed (h_st h1) -> keyed (h_st h2) ->
  (forall u0, ulookup (make_oauth2_pid prov1 (pa_uid (o_provider (e_O E1)))) (s_users (h_st h1)) = Some u0 ->
              u_ouid u0 = pa_uid (o_provider (e_O E1))) ->
  (forall u0, ulookup (make_oauth2_pid prov2 (pa_uid (o_provider (e_O E2)))) (s_users (h_st h2)) = Some u0 ->
              u_ouid u0 = pa_uid (o_provider (e_O E2))) ->
  oauth2_end E1 prov1 h1 = (r1, h1') -> appends_uid h1 h1' U ->
  oauth2_end E2 prov2 h2 = (r2, h2') -> appends_uid h2 h2' U ->
  prov1 = prov2 /\ pa_uid (o_provider (e_O E1)) = pa_uid (o_provider (e_O E2)).
Proof. exact oauth2_same_identity_same_pair. Qed.
Print Assumptions c14_same_identity_same_pair.
