(* C03, second sentence - "Independently, the lock and confirm middlewares never pass a request
   whose session user is locked / not confirmed" - on the whole application stack
   (expire -> remember -> access middleware -> lock -> confirm -> application) and on [step].

   Vocabulary (Proofs/MwProofs.v):
     app_ran h'          the response on the wire in h' is the application's page
                         (RespPage 200 "app" _): every other write of the stack is a bare status or
                         a redirect, so from a state in which nothing was written this is exactly
                         "the application handler ran";
     stack_names E r pid the account a request can be served as: pid is the (non-empty) user id of
                         the session E carries, or - only with the remember middleware in the stack
                         (r = true) - the pid that remember.Authenticate parses out of the browser's
                         remember cookie ([cookie_names]);
     is_locked E u       lock.IsLocked at the request's time: o_now (e_O E) < u_locked u;
     refusal_tail E      the session events a failure redirect adds: the error flash in form mode,
                         nothing in API mode;
     refusal_redirect E p   the failure redirect to p: 302 in form mode, the 307 JSON redirect with
                         failure status in API mode;
     step_refused C cfg w req O p   the request changes no storage, returns neither error nor panic,
                         answers with the failure redirect to p (or, in API mode only, writes nothing
                         because the oracle failed the renderer's backend call), and in form mode the
                         browser's session then holds the error flash.
   The "passes only ..." theorems have NO hypothesis on storage or on the oracle (faults included);
   the three start-of-request conditions of the stack theorems (nothing written, no context user,
   no context pid) are what [step] starts every request with. *)
From AB Require Import World.Step Proofs.MonadInv Proofs.Gate Proofs.StepLift2 Proofs.MwProofs.
Open Scope Z_scope.

(* ---- the stack ------------------------------------------------------------------------------ *)
(* lock middleware installed: if the application handler ran, the record stored under the id the
   request was served as is not locked at the request's time (and is still there afterwards) *)
Theorem c03_stack_blocks_locked : forall E full tf fr c r e h res h',
  h_out h = None -> h_cuser h = None -> h_cpid h = None ->
  app_stack E full tf fr true c r e h = (res, h') -> app_ran h' ->
  exists pid u, stack_names E r pid /\
    ulookup pid (s_users (h_st h)) = Some u /\ ulookup pid (s_users (h_st h')) = Some u /\
    is_locked E u = false.
Proof. exact stack_blocks_locked_lemma. Qed.
Print Assumptions c03_stack_blocks_locked.

(* confirm middleware installed: likewise, the record is confirmed *)
Theorem c03_stack_blocks_unconfirmed : forall E full tf fr l r e h res h',
  h_out h = None -> h_cuser h = None -> h_cpid h = None ->
  app_stack E full tf fr l true r e h = (res, h') -> app_ran h' ->
  exists pid u, stack_names E r pid /\
    ulookup pid (s_users (h_st h)) = Some u /\ ulookup pid (s_users (h_st h')) = Some u /\
    u_confirmed u = true.
Proof. exact stack_blocks_unconfirmed_lemma. Qed.
Print Assumptions c03_stack_blocks_unconfirmed.

(* both at once, for any combination of the two middlewares, with the result of the stack and
   the fact that the user table is untouched *)
Theorem c03_stack_app_ran : forall E full tf fr l c r e h res h',
  h_out h = None -> h_cuser h = None -> h_cpid h = None ->
  app_stack E full tf fr l c r e h = (res, h') -> app_ran h' ->
  res = Ok tt /\
  exists pid u, stack_names E r pid /\ ulookup pid (s_users (h_st h)) = Some u /\
    s_users (h_st h') = s_users (h_st h) /\
    (l = true -> is_locked E u = false) /\ (c = true -> u_confirmed u = true).
Proof. exact stack_app_ran_lemma. Qed.
Print Assumptions c03_stack_app_ran.

(* ---- [step] ---------------------------------------------------------------------------------- *)
(* a request to an application route with the lock middleware in its stack that is answered with
   the application's page: the account named by the browser's session (or by its remember cookie,
   when the remember middleware is in the stack) is in storage and not locked *)
Theorem c03_step_blocks_locked : forall C cfg w req O full tf fr c r e,
  q_route req = RApp full tf fr true c r e ->
  let b := q_browser req in
  let E := mkEnv C cfg O req (jar_get b (w_cook w)) (jar_get b (w_sess w)) in
  let w' := fst (step C cfg w (AReq req) O) in
  let o := snd (step C cfg w (AReq req) O) in
  (exists d, ob_resp o = Some (RespPage 200 (bs "app") d)) ->
  exists pid u, stack_names E r pid /\
    ulookup pid (s_users (w_st w)) = Some u /\ ulookup pid (s_users (w_st w')) = Some u /\
    u_locked u <= o_now O.
Proof. exact step_blocks_locked_lemma. Qed.
Print Assumptions c03_step_blocks_locked.

(* likewise with the confirm middleware: that account is confirmed *)
Theorem c03_step_blocks_unconfirmed : forall C cfg w req O full tf fr l r e,
  q_route req = RApp full tf fr l true r e ->
  let b := q_browser req in
  let E := mkEnv C cfg O req (jar_get b (w_cook w)) (jar_get b (w_sess w)) in
  let w' := fst (step C cfg w (AReq req) O) in
  let o := snd (step C cfg w (AReq req) O) in
  (exists d, ob_resp o = Some (RespPage 200 (bs "app") d)) ->
  exists pid u, stack_names E r pid /\
    ulookup pid (s_users (w_st w)) = Some u /\ ulookup pid (s_users (w_st w')) = Some u /\
    u_confirmed u = true.
Proof. exact step_blocks_unconfirmed_lemma. Qed.
Print Assumptions c03_step_blocks_unconfirmed.

(* ---- the refusals ---------------------------------------------------------------------------- *)
(* the lock middleware behind the gate (a context user is set, nothing written yet): it passes
   the request exactly when the user is not locked, changing nothing; otherwise it answers with
   the failure redirect to the lock module's path, and storage is unchanged *)
Theorem c03_lock_mw_decides : forall E h u r h',
  h_cuser h = Some u -> h_out h = None -> lock_mw E h = (r, h') ->
  (is_locked E u = false /\ r = Ok true /\ h' = h) \/
  (is_locked E u = true /\ r = Ok false /\ h_st h' = h_st h /\ h_cev h' = h_cev h /\ h_cuser h' = h_cuser h /\
   ((h_sev h' = h_sev h ++ refusal_tail E /\
     h_out h' = Some (mkWritten (refusal_redirect E (p_lock_notok_of (e_cfg E))) (h_sev h ++ refusal_tail E) (h_cev h))) \/
    (c_api (e_cfg E) = true /\ h_sev h' = h_sev h /\ h_out h' = None /\
     exists n ek, fault_at n (o_faults (e_O E)) = Some ek))).
Proof. exact lock_mw_spec. Qed.
Print Assumptions c03_lock_mw_decides.

Theorem c03_confirm_mw_decides : forall E h u r h',
  h_cuser h = Some u -> h_out h = None -> confirm_mw E h = (r, h') ->
  (u_confirmed u = true /\ r = Ok true /\ h' = h) \/
  (u_confirmed u = false /\ r = Ok false /\ h_st h' = h_st h /\ h_cev h' = h_cev h /\ h_cuser h' = h_cuser h /\
   ((h_sev h' = h_sev h ++ refusal_tail E /\
     h_out h' = Some (mkWritten (refusal_redirect E (p_confirm_notok_of (e_cfg E))) (h_sev h ++ refusal_tail E) (h_cev h))) \/
    (c_api (e_cfg E) = true /\ h_sev h' = h_sev h /\ h_out h' = None /\
     exists n ek, fault_at n (o_faults (e_O E)) = Some ek))).
Proof. exact confirm_mw_spec. Qed.
Print Assumptions c03_confirm_mw_decides.

(* on [step]: the browser's session names a stored account that is locked, the requirements of
   the access middleware are met, the session has not expired (when the expire middleware is in
   the stack) and the oracle does not fail the one Load of the request: refused with the failure
   redirect to the lock module's path; storage unchanged *)
Theorem c03_step_lock_refused : forall C cfg w req O full tf fr c r e u,
  q_route req = RApp full tf fr true c r e ->
  let b := q_browser req in
  let j := jar_get b (w_sess w) in
  let E := mkEnv C cfg O req (jar_get b (w_cook w)) j in
  bempty (aget k_uid j) = false -> (e = true -> stamp_expired cfg (o_now O) j = false) ->
  reqs_ok E full tf = true -> fault_at 0 (o_faults O) = None ->
  ulookup (aget k_uid j) (s_users (w_st w)) = Some u -> o_now O < u_locked u ->
  step_refused C cfg w req O (p_lock_notok_of cfg).
Proof. exact step_lock_mw_refuses_lemma. Qed.
Print Assumptions c03_step_lock_refused.

(* likewise for an account that is not confirmed (and, with the lock middleware in front, not
   locked): the failure redirect to the confirm module's path *)
Theorem c03_step_confirm_refused : forall C cfg w req O full tf fr l r e u,
  q_route req = RApp full tf fr l true r e ->
  let b := q_browser req in
  let j := jar_get b (w_sess w) in
  let E := mkEnv C cfg O req (jar_get b (w_cook w)) j in
  bempty (aget k_uid j) = false -> (e = true -> stamp_expired cfg (o_now O) j = false) ->
  reqs_ok E full tf = true -> fault_at 0 (o_faults O) = None ->
  ulookup (aget k_uid j) (s_users (w_st w)) = Some u ->
  (l = true -> u_locked u <= o_now O) -> u_confirmed u = false ->
  step_refused C cfg w req O (p_confirm_notok_of cfg).
Proof. exact step_confirm_mw_refuses_lemma. Qed.
Print Assumptions c03_step_confirm_refused.

(* what [step_refused] says, spelled out *)
Theorem c03_step_refused_reading : forall C cfg w req O p,
  step_refused C cfg w req O p <->
  (let w' := fst (step C cfg w (AReq req) O) in
   let o := snd (step C cfg w (AReq req) O) in
   w_st w' = w_st w /\ ob_err o = false /\ ob_panic o = false /\
   (ob_resp o = Some (if c_api cfg then RespRedirectAPI 307 p true else RespRedirect302 p) \/
    (ob_resp o = None /\ c_api cfg = true /\ exists n ek, fault_at n (o_faults O) = Some ek)) /\
   (c_api cfg = false -> ob_resp o <> None ->
      alookup k_flash_err (jar_get (q_browser req) (w_sess w')) = Some v_flash)).
Proof. exact step_refused_reading. Qed.
Print Assumptions c03_step_refused_reading.
