(* C02 — with a second factor enabled, password knowledge alone never yields a session. *)
From AB Require Import World.Handlers Proofs.MonadInv Proofs.Veto Proofs.NoLogin Proofs.Hijack.

(* The before-hijack question is never answered "not handled" for a context user with a TOTP
   secret (totp2fa set up) or an SMS number (sms2fa set up): in any module configuration and
   either set-up order of the two 2FA modules. *)
Theorem c02_hijack_refuses : forall E rm h r h',
  ctx_2fa E h -> fire E EvBeforeHijack rm h = (r, h') -> r <> Ok false.
Proof. exact fire_hijack_refuses. Qed.
Print Assumptions c02_hijack_refuses.

(* /login for such an account: every session event the request can append is uid-neutral —
   the correct password only parks the login (pending marker), it never logs in — whatever
   other modules (lock, confirm, remember, expire) are loaded in whatever order, and whatever
   storage or SMS-sender faults occur *)
Theorem c02_password_login_parks : forall E h u,
  ulookup (aget (pid_field E) (values E)) (s_users (h_st h)) = Some u ->
  (has_totp E u \/ has_sms E u) ->
  neutral_from (login_post E) h.
Proof. exact login_post_2fa_parks_lemma. Qed.
Print Assumptions c02_password_login_parks.

(* the BeforeAuth hooks (lock, confirm) never remove a second factor from the context user *)
Theorem c02_before_auth_keeps_factor : forall E rm hs hd h r h',
  (forall g, In g hs -> g = HLockBefore \/ g = HConfirmPrevent) ->
  ctx_2fa E h -> call E hs rm hd h = (r, h') -> ctx_2fa E h'.
Proof. exact before_auth_keeps_2fa. Qed.
Print Assumptions c02_before_auth_keeps_factor.
