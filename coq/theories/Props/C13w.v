(* C13 for the wrapped deployment: a session that the global remember.Middleware logged in is
   half-authenticated, and every 2FA-settings route sits behind RequireFullAuth: the handler behind
   the gate is not run for it.  [settings_route]: /2fa/totp/{setup,qr,confirm,remove},
   /2fa/sms/{setup,confirm,remove}, /2fa/{totp,sms}/email/verify[/end], /2fa/recovery/regen.
   (The OTP add / clear routes only require a session identity, not full authentication - in the
   library as in the model - and are not covered.) *)
From AB Require Import World.Step Proofs.MonadInv Proofs.Gate Proofs.StepLift2 Proofs.Guards2 Proofs.Wrapped.
Open Scope Z_scope.

(* behind the full-auth gate a half-authenticated view is refused whatever the context holds (also
   when the wrapper has cached the pid): the result does not depend on the wrapped handler *)
Theorem c13w_behind_halfauth_not_run : forall E inner h,
  ahas k_halfauth (e_sess E) = true ->
  behind E true inner h = (mw_fail E true (c_unauthed (e_cfg E)) ;;; ret tt) h.
Proof. exact behind_halfauth. Qed.
Print Assumptions c13w_behind_halfauth_not_run.

Theorem c13w_gate_halfauth : forall E mp tf fr,
  ahas k_halfauth (e_sess E) = true -> auth_middleware E mp true tf fr = (mw_fail E mp fr ;;; ret false).
Proof. exact gate_halfauth. Qed.
Print Assumptions c13w_gate_halfauth.

(* every settings route is the gate around something, or not mounted *)
Theorem c13w_settings_routes_gated : forall E,
  settings_route (q_route (e_req E)) = true ->
  (exists inner, route_table E = Handler (behind E true inner)) \/
  route_table E = NotFound \/ route_table E = MethodNotAllowed.
Proof. exact settings_route_table. Qed.
Print Assumptions c13w_settings_routes_gated.

(* a request to a settings route whose view is half-authenticated, or whose view names nobody at
   the start of a request, leaves storage exactly as it was *)
Theorem c13w_settings_refused_keep_storage : forall E h r h',
  settings_route (q_route (e_req E)) = true ->
  ahas k_halfauth (e_sess E) = true \/
  (h_cuser h = None /\ h_cpid h = None /\ h_out h = None /\ bempty (aget k_uid (e_sess E)) = true) ->
  serve E h = (r, h') -> h_st h' = h_st h.
Proof. exact serve_settings_refused. Qed.
Print Assumptions c13w_settings_refused_keep_storage.

(* after the wrapper logged the cookie's owner in (it cached a pid): the view is half-authenticated,
   the settings route leaves storage as the wrapper left it, the user table as the request found it *)
Theorem c13w_settings_after_wrapper_login : forall E st O h1 s2 r h',
  remember_mw E (init_hst st O) = (Ok tt, h1) -> remembered_view (e_sess E) h1 = (Ok s2, h1) ->
  h_cpid h1 <> None -> settings_route (q_route (e_req E)) = true ->
  serve (with_sess E s2) h1 = (r, h') ->
  h_st h' = h_st h1 /\ s_users (h_st h') = s_users st /\ ahas k_halfauth s2 = true.
Proof. exact settings_after_wrapper_login. Qed.
Print Assumptions c13w_settings_after_wrapper_login.

(* whole requests: a browser whose session names nobody changes no user record (hence no 2FA
   setting) through a settings route - wrapped or not, whatever its remember cookie *)
Theorem c13w_settings_need_session : forall C cfg w req O,
  settings_route (q_route req) = true ->
  bempty (aget k_uid (jar_get (q_browser req) (w_sess w))) = true ->
  s_users (w_st (fst (wstep C cfg w (AReq req) O))) = s_users (w_st w).
Proof. exact wstep_settings_need_session. Qed.
Print Assumptions c13w_settings_need_session.

Theorem c13w_settings_route_reading : forall r,
  settings_route r = true <->
  r = RTotpSetup \/ r = RTotpQR \/ r = RTotpConfirm \/ r = RTotpRemove \/ r = RSmsSetup \/ r = RSmsConfirm \/
  r = RSmsRemove \/ (exists k, r = REmailVerify k) \/ (exists k, r = REmailVerifyEnd k) \/ r = RRecoveryRegen.
Proof. exact settings_route_reading. Qed.
Print Assumptions c13w_settings_route_reading.
