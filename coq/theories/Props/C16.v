(* C16 — (b) on the model: the client-visible outcome of a recover-start request is the same
   function of what the client already saw, whether or not the named account exists (partial:
   (a) and (c) are decided by byte-level comparison of paired runs on the implementation). *)
From AB Require Import World.Handlers Proofs.MonadInv Proofs.SameView.

Theorem c16_recover_start_same_view : forall E, o_faults (e_O E) = [] -> forall h r h',
  recover_start_post E h = (r, h') -> h_out h = None ->
  valid [pid_rule E] [] (values E) = true -> q_badbody (e_req E) = false ->
  (c_api (e_cfg E) = true -> q_meth (e_req E) <> GET) ->
  r = Ok tt /\ view h' = ok_view E h.
Proof. exact recover_start_view_lemma. Qed.
Print Assumptions c16_recover_start_same_view.
