(* C04 — the complete tie between the pure lock machine (Props/C04.v) and the system: [c04_refines]
   made applicable to whole histories of [step] / [run] (statements fixed; proofs live in
   Proofs/LockWorld2.v, on top of the handler-level theorems of Props/C04b.v).

   Vocabulary (Proofs/LockWorld.v, Proofs/LockWorld2.v):
     ltriple u                 the (AttemptCount, LastAttempt, Locked) triple of a record;
     lc_of cfg                 the machine configuration (LockAfter, LockWindow, LockDuration) of cfg;
     ckind_of cfg req          Some k for the eight requests whose handler can reach a lock hook (POST
                               /login, /otp/login, /recover/end, /2fa/totp/validate, /2fa/sms/validate,
                               /2fa/sms/confirm, /2fa/sms/remove and GET /oauth2/callback/<provider>,
                               each with its module loaded), None for every other request;
     req_tgt E k us            for such a request, as a function of the request, the configuration, the
                               oracle, the browser's jars and the user table us it starts from:
                               Some (P0, ops) = the machine runs ops on account P0's triple, None = no
                               triple changes ([login_tgt], [otp_tgt], [totp_tgt], [sms_tgt],
                               [sms_set_tgt], [recover_tgt], [oauth_tgt]);
     lock_ops C cfg w a O P    the machine operations action a, taken in world w under oracle O, applies
                               to account P's triple: for a request the ops of its target if P is the
                               target account ([c04_lock_ops_request], [c04_lock_ops_login]),
                               [LManualLock now] / [LUnlock now] for ALock P / AUnlock P, [] otherwise;
     run_ops C cfg w l P       the per-step [lock_ops] lists along the history l from w;
     seed_keeps w a            if a is a harness seed (ASeed) over an EXISTING record, it carries that
                               record's triple (a seed of a new account is unconstrained) - a seed
                               overwrites the triple with whatever it carries, which is no machine step;
     seeds_keep C cfg w l      [seed_keeps] at every step of the history.
   Standing hypotheses, all visible: NoDup (c_mods cfg) and has_mod cfg MLock = true (the lock module is
   loaded exactly once), o_faults O = [] for every oracle of the history (a failed Save leaves the
   counter where it was), filed (w_st w) (unique pids, records stored under their own pid: true of
   [empty_world] and kept by every step, [c04_step_keeps_filed]). *)
From AB Require Import World.Step Model.Lock Spec.C04 Proofs.MonadInv Proofs.StoreLogic
  Proofs.TwoFactorProofs Proofs.StoreShape Proofs.LockWorld Proofs.LockWorld2.
Open Scope Z_scope.

(* 1. the frame: every request that is not one of the [ckind_of] ones - pages, register, confirm,
   recover start, logout, the other 2FA settings routes, the application stacks with every middleware,
   404 / 405, disabled modules, wrong methods - keeps every lock triple, backend faults or not *)
Theorem c04_serve_keeps_triples : forall E,
  ckind_of (e_cfg E) (e_req E) = None ->
  forall h r h', filed (h_st h) -> ctx_stored h -> serve E h = (r, h') ->
  filed (h_st h') /\
  forall p u, ulookup p (s_users (h_st h)) = Some u ->
    exists u', ulookup p (s_users (h_st h')) = Some u' /\ ltriple u' = ltriple u.
Proof. exact serve_keeps_triples_lemma. Qed.
Print Assumptions c04_serve_keeps_triples.

(* 2. the administrative actions.  lock.Lock applies LManualLock now, lock.Unlock applies LUnlock now,
   to the named account's triple - every other field of the record, and every other record, as it
   was; on an unknown account nothing happens *)
Theorem c04_admin_lock : forall C cfg w pid O,
  o_faults O = [] -> keyed (w_st w) ->
  let w' := fst (step C cfg w (ALock pid) O) in
  (forall u, ulookup pid (s_users (w_st w)) = Some u ->
     ulookup pid (s_users (w_st w')) = Some (set_ltriple u (lstep (lc_of cfg) (ltriple u) (LManualLock (o_now O))))) /\
  (forall p, p <> pid -> ulookup p (s_users (w_st w')) = ulookup p (s_users (w_st w))) /\
  (ulookup pid (s_users (w_st w)) = None -> s_users (w_st w') = s_users (w_st w)).
Proof. exact admin_lock_lemma. Qed.
Print Assumptions c04_admin_lock.

Theorem c04_admin_unlock : forall C cfg w pid O,
  o_faults O = [] -> keyed (w_st w) ->
  let w' := fst (step C cfg w (AUnlock pid) O) in
  (forall u, ulookup pid (s_users (w_st w)) = Some u ->
     ulookup pid (s_users (w_st w')) = Some (set_ltriple u (lstep (lc_of cfg) (ltriple u) (LUnlock (o_now O))))) /\
  (forall p, p <> pid -> ulookup p (s_users (w_st w')) = ulookup p (s_users (w_st w))) /\
  (ulookup pid (s_users (w_st w)) = None -> s_users (w_st w') = s_users (w_st w)).
Proof. exact admin_unlock_lemma. Qed.
Print Assumptions c04_admin_unlock.

(* the harness's direct write: the named record becomes exactly the seeded one, whatever triple it
   carries; no other record changes *)
Theorem c04_admin_seed : forall C cfg w su rm O,
  let w' := fst (step C cfg w (ASeed su rm) O) in
  ulookup (u_pid su) (s_users (w_st w')) = Some su /\
  (forall p, p <> u_pid su -> ulookup p (s_users (w_st w')) = ulookup p (s_users (w_st w))).
Proof. exact admin_seed_lemma. Qed.
Print Assumptions c04_admin_seed.

(* UpdatePassword, StartConfirmation, a planted session value and a replaced jar keep every triple,
   backend faults or not *)
Theorem c04_admin_keeps_triples : forall C cfg w a O,
  match a with
  | AUpdatePassword _ _ | AStartConfirm _ | APlant _ _ _ | ASetJar _ _ _ => True
  | _ => False
  end ->
  filed (w_st w) ->
  forall p u, ulookup p (s_users (w_st w)) = Some u ->
    exists u', ulookup p (s_users (w_st (fst (step C cfg w a O)))) = Some u' /\ ltriple u' = ltriple u.
Proof. exact admin_keeps_triples_lemma. Qed.
Print Assumptions c04_admin_keeps_triples.

(* 3. one step.  [filed] (hence [keyed]) is an invariant of [step], whatever the action and the oracle *)
Theorem c04_step_keeps_filed : forall C cfg w a O,
  filed (w_st w) -> filed (w_st (fst (step C cfg w a O))) /\ keyed (w_st (fst (step C cfg w a O))).
Proof. exact step_filed_keyed_lemma. Qed.
Print Assumptions c04_step_keeps_filed.

(* ... and every account of the world is still there after the step, its triple the machine run over
   [lock_ops] - for EVERY action and every route, OAuth2 callback and SMS settings pages included *)
Theorem c04_step_applies_machine : forall C cfg w a O,
  NoDup (c_mods cfg) -> has_mod cfg MLock = true -> o_faults O = [] -> filed (w_st w) -> seed_keeps w a ->
  forall P u, ulookup P (s_users (w_st w)) = Some u ->
  exists u', ulookup P (s_users (w_st (fst (step C cfg w a O)))) = Some u' /\
             ltriple u' = lrun (lc_of cfg) (ltriple u) (lock_ops C cfg w a O P).
Proof. exact step_applies_machine_lemma. Qed.
Print Assumptions c04_step_applies_machine.

(* what [lock_ops] is for a request ... *)
Theorem c04_lock_ops_request : forall C cfg w req O P,
  lock_ops C cfg w (AReq req) O P =
  match ckind_of cfg req with
  | Some k =>
      match req_tgt (env_of C cfg w req O) k (s_users (w_st w)) with
      | Some (P0, ops) => if beqb P P0 then ops else []
      | None => []
      end
  | None => []
  end.
Proof. exact lock_ops_request_lemma. Qed.
Print Assumptions c04_lock_ops_request.

(* ... for instance for a password login ([readable]: the body parses): one LFail on the named account
   when the password is wrong; LOkBefore, and LOkAfter unless the login is refused or parked, when it is
   right; nothing for any other account, an unknown account or an unreadable body *)
Theorem c04_lock_ops_login : forall C cfg w req O P,
  q_route req = RLogin -> q_meth req = POST -> has_mod cfg MAuth = true ->
  let E := env_of C cfg w req O in
  let pid := aget (pid_field E) (values E) in
  lock_ops C cfg w (AReq req) O P =
  if readable E then
    match ulookup pid (s_users (w_st w)) with
    | Some u =>
        if beqb P pid then
          (if pwcheck C (u_password u) (aget f_password (values E))
           then ok_ops E (blocked E u || enrolled E u) else [LFail (o_now O)])
        else []
    | None => []
    end
  else [].
Proof. exact lock_ops_login_lemma. Qed.
Print Assumptions c04_lock_ops_login.

(* 4. histories: the triple of an account that exists in the start world is, after any fault-free
   history, the machine run over the concatenated per-step operation lists *)
Theorem c04_run_applies_machine : forall C cfg l w,
  NoDup (c_mods cfg) -> has_mod cfg MLock = true -> Forall (fun ao => o_faults (snd ao) = []) l ->
  filed (w_st w) -> seeds_keep C cfg w l ->
  forall P u, ulookup P (s_users (w_st w)) = Some u ->
  exists u', ulookup P (s_users (w_st (fst (run C cfg w l)))) = Some u' /\
             ltriple u' = lrun (lc_of cfg) (ltriple u) (concat (run_ops C cfg w l P)).
Proof. exact run_applies_machine_lemma. Qed.
Print Assumptions c04_run_applies_machine.

(* ... hence, for an account that starts fresh (h0 = [], triple [l_init]: what Create, the OAuth2
   callback and a blank seed store) or from any machine history h0: the stored count is the declarative
   failure streak of the whole operation history H, the stored instants are the declarative ones, and
   the account is locked exactly until [locked_until] ([c04_refines], [c04_locked_iff] of Props/C04.v
   on the stored record).  No hypothesis on the clocks: the oracles' times are arbitrary *)
Theorem c04_world_refines : forall C cfg l w,
  NoDup (c_mods cfg) -> has_mod cfg MLock = true -> Forall (fun ao => o_faults (snd ao) = []) l ->
  filed (w_st w) -> seeds_keep C cfg w l ->
  forall P u h0, ulookup P (s_users (w_st w)) = Some u -> ltriple u = lrun (lc_of cfg) l_init h0 ->
  let H := h0 ++ concat (run_ops C cfg w l P) in
  exists u', ulookup P (s_users (w_st (fst (run C cfg w l)))) = Some u' /\
    ltriple u' = lrun (lc_of cfg) l_init H /\
    u_attempts u' = streak (lc_of cfg) (rev H) /\
    u_last u' = last_stamp (lc_of cfg) (rev H) /\
    u_locked u' = locked_until (lc_of cfg) (rev H) /\
    (forall t, locked_at (ltriple u') t = true <-> t < locked_until (lc_of cfg) (rev H)).
Proof. exact world_refines_lemma. Qed.
Print Assumptions c04_world_refines.

(* 5. non-vacuity: auth + lock, LockAfter 3 / window 300 s / duration 3600 s; the harness seeds one fresh
   account into [empty_world]; then three wrong passwords (1000, 1010, 1020), the right one while locked
   (1030: refused, LOkBefore only), a manual unlock (1040), the right one again (1050).  Every
   hypothesis of [c04_world_refines] holds, the operation history is the expected one, and the stored
   record ends with count 0 and the lock instant the unlock left *)
Example c04_world_example :
  NoDup (c_mods ex_cfg) /\ has_mod ex_cfg MLock = true /\
  Forall (fun ao => o_faults (snd ao) = []) ex_history /\
  filed (w_st ex_start) /\ seeds_keep ex_crypto ex_cfg ex_start ex_history /\
  ulookup ex_pid (s_users (w_st ex_start)) = Some ex_user /\ ltriple ex_user = l_init /\
  concat (run_ops ex_crypto ex_cfg ex_start ex_history ex_pid) =
    [LFail 1000; LFail 1010; LFail 1020; LOkBefore 1030; LUnlock 1040; LOkBefore 1050; LOkAfter 1050] /\
  exists u', ulookup ex_pid (s_users (w_st (fst (run ex_crypto ex_cfg ex_start ex_history)))) = Some u' /\
    u_attempts u' = 0 /\ u_last u' = 1050 /\ u_locked u' = 1040 - 3600.
Proof. exact world_example_lemma. Qed.
Print Assumptions c04_world_example.
