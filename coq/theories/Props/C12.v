(* C12 — a one-time password is consumed by the login that uses it, and an account never
   holds more than five of them. *)
From AB Require Import World.Handlers Proofs.MonadInv Proofs.Neutral Proofs.StoreLogic Proofs.OneTimeProofs.

(* /otp/login: if the request wrote a user identity U into the session, then U is the submitted
   pid, the submitted value hashed to the i-th stored one-time password of U, and when the
   request ends (after every event hook) the record stored under U carries the list with that
   entry removed; no other record changed.  [keyed]: records are filed under their own pid. *)
Theorem c12_otp_consumed_before_session : forall (E : env) h r h' ls U,
  keyed (h_st h) ->
  otp_login_post E h = (r, h') -> h_sev h' = h_sev h ++ ls -> In (Put k_uid U) ls ->
  U = aget (pid_field E) (values E) /\
  exists u i,
    ulookup U (s_users (h_st h)) = Some u /\
    otp_match (sha (e_C E) (aget f_password (values E))) (split_otps (u_otps u)) 0%nat = Some (Some i) /\
    (exists u', ulookup U (s_users (h_st h')) = Some u' /\
                u_otps u' = join_otps (otp_remove (split_otps (u_otps u)) i)) /\
    (forall p, p <> U -> ulookup p (s_users (h_st h')) = ulookup p (s_users (h_st h))).
Proof. exact otp_consumed_before_session_lemma. Qed.
Print Assumptions c12_otp_consumed_before_session.

(* the same without the filing assumption: either only uid-neutral session events were added,
   or the Save of the consumed record succeeded and the final record under that user's pid is
   the consumed one up to the lock counters *)
Theorem c12_otp_login_cases : forall (E : env) h r h',
  otp_login_post E h = (r, h') ->
  (exists ls, h_sev h' = h_sev h ++ ls /\ Forall sess_neutral ls) \/
  (exists u i,
     ulookup (aget (pid_field E) (values E)) (s_users (h_st h)) = Some u /\
     otp_match (sha (e_C E) (aget f_password (values E))) (split_otps (u_otps u)) 0%nat = Some (Some i) /\
     (exists su, ulookup (u_pid u) (s_users (h_st h')) = Some su /\ upto_lock (otp_consumed u i) su) /\
     (forall p, p <> u_pid u -> ulookup p (s_users (h_st h')) = ulookup p (s_users (h_st h)))).
Proof. exact otp_login_cases. Qed.
Print Assumptions c12_otp_login_cases.

(* removing the matched entry: one entry fewer, nothing new, and (no duplicates) that entry is gone *)
Theorem c12_otp_remove_spec : forall (l : list bytes) i,
  ((i < length l)%nat -> length (otp_remove l i) = pred (length l)) /\
  (forall y, In y (otp_remove l i) -> In y l) /\
  (forall d, (i < length l)%nat -> NoDup l -> ~ In (nth i l d) (otp_remove l i)).
Proof. exact otp_remove_spec_lemma. Qed.
Print Assumptions c12_otp_remove_spec.

(* the index found by the matcher is in range and that entry encodes the submitted hash *)
Theorem c12_otp_match_spec : forall inp l i,
  otp_match inp l 0%nat = Some (Some i) -> (i < length l)%nat /\ b64std_dec (nth i l []) = Some inp.
Proof. exact otp_match_spec_lemma. Qed.
Print Assumptions c12_otp_match_spec.

(* /otp/add for the context user u: with five or more stored nothing is saved; otherwise
   storage is unchanged (Save failed) or exactly u's record is replaced by one whose list
   reads back as the old entries plus the one new hash *)
Theorem c12_otp_cap : forall (E : env) h u r h',
  h_cuser h = Some u -> otp_add_post E h = (r, h') ->
  let cur := split_otps (u_otps u) in
  ((5 <= length cur)%nat -> h_st h' = h_st h) /\
  ((length cur < 5)%nat ->
     h_st h' = h_st h \/
     exists secret,
       let x := b64std_enc (sha (e_C E) (otp_format secret)) in
       let u' := u <| u_otps := join_otps (cur ++ [x]) |> in
       h_st h' = h_st h <| s_users := uput (u_pid u) u' (s_users (h_st h)) |> /\
       (length (split_otps (u_otps u')) <= S (length cur))%nat /\
       (sha (e_C E) (otp_format secret) <> [] -> split_otps (u_otps u') = cur ++ [x])).
Proof. exact otp_cap_lemma. Qed.
Print Assumptions c12_otp_cap.
