(* C01 — a session is issued only against a valid credential of that user. *)
From AB Require Import World.Step Proofs.EvLogic Proofs.Neutral Proofs.HandlerEvents Proofs.ServeEvents Proofs.StepUid
  Proofs.MonadInv Proofs.Guards Proofs.Guards2.

(* Every request whose route/method cannot log anybody in — unknown routes, wrong methods,
   malformed bodies on them, every GET page, every 2FA-settings, OTP-management, confirm,
   recover-start, OAuth2-start route, every middleware refusal — leaves the user identity of
   EVERY browser's session exactly as it was: for all configurations (any module subset in any
   order), all worlds, all request contents, all oracles (storage faults included). *)
Theorem c01_other_requests_change_nothing : forall C cfg w req O b,
  can_login req = false -> may_drop req = false ->
  alookup k_uid (jar_get b (w_sess (fst (step C cfg w (AReq req) O)))) = alookup k_uid (jar_get b (w_sess w)).
Proof. exact step_uid_neutral_lemma. Qed.
Print Assumptions c01_other_requests_change_nothing.

(* a request only ever touches the jars of the browser that sent it *)
Theorem c01_other_browsers_untouched : forall C cfg w req O b,
  b <> q_browser req ->
  jar_get b (w_sess (fst (step C cfg w (AReq req) O))) = jar_get b (w_sess w) /\
  jar_get b (w_cook (fst (step C cfg w (AReq req) O))) = jar_get b (w_cook w).
Proof. exact step_other_browsers_lemma. Qed.
Print Assumptions c01_other_browsers_untouched.

(* nothing but logout and the expire middleware ever takes a user identity out of a session *)
Theorem c01_identity_only_dropped_by_logout_or_expiry : forall C cfg w req O b,
  may_drop req = false ->
  ahas k_uid (jar_get b (w_sess w)) = true ->
  ahas k_uid (jar_get b (w_sess (fst (step C cfg w (AReq req) O)))) = true.
Proof. exact step_uid_kept_lemma. Qed.
Print Assumptions c01_identity_only_dropped_by_logout_or_expiry.

(* /login: every session event the handler can append is uid-neutral, or writes the submitted
   pid under the condition that storage holds that pid with a password hash the submitted
   password verifies against — whatever hooks are registered, in whatever order *)
Theorem c01_login_guard : forall E h, guarded (g_login E (h_st h)) (login_post E) h.
Proof. exact login_post_guard. Qed.
Print Assumptions c01_login_guard.

(* /otp/login: likewise, under the condition that the submitted value hashes to one of the
   stored one-time passwords of that pid *)
Theorem c01_otp_guard : forall E h, guarded (g_otp E (h_st h)) (otp_login_post E) h.
Proof. exact otp_login_post_guard. Qed.
Print Assumptions c01_otp_guard.

(* /register: the session is written for the submitted pid only when storage did not hold that
   pid before this request and the submitted values passed the policy *)
Theorem c01_register_guard : forall E h, guarded (g_register E (h_st h)) (register_post E) h.
Proof. exact register_post_guard. Qed.
Print Assumptions c01_register_guard.

(* remember cookie: the session is written for the pid parsed from the cookie only when the
   hash of the decoded cookie was among THAT pid's stored tokens *)
Theorem c01_remember_guard : forall E h, guarded (g_remember E (h_st h)) (remember_authenticate E) h.
Proof. exact remember_authenticate_guard. Qed.
Print Assumptions c01_remember_guard.
