(* C10 — logout (continued): the reading over whole histories.

   After a logout of browser b whose response was written (position i = length l1 of the history),
   b's stored session has no user identity at every later position j, as long as no step between i
   and j is an issuing step for b.  This is the history theorem of C01 (Props/C01d.v) contraposed,
   started from what c10_step_logout (Props/C10b.v) / c10w_step_logout (Props/C10w.v) give for the
   logout step.  Since the statement holds for every l2, it holds for every prefix of what follows
   the logout: l2 is "the steps between i and j".  Proofs: Proofs/HistoryProofs.v. *)
From AB Require Import World.Step World.Exec Proofs.EvLogic Proofs.Neutral Proofs.HandlerEvents Proofs.ServeEvents
  Proofs.StepUid Proofs.MonadInv Proofs.Guards Proofs.Guards2 Proofs.Guards3 Proofs.StepGuard Proofs.StepAll
  Proofs.Wrapped Proofs.HistoryProofs.
Open Scope Z_scope.

(* The sharpest form: "issuing step" is judged in the world the step starts from
   ([issued_at], see c01_issued_at_reading: a request of b whose credential condition holds there
   for some U — for an application route with the remember middleware that means a cookie with an
   unconsumed token —, or APlant b uid / ASetJar false b with an identity). *)
Theorem c10_history_stays_logged_out : forall C cfg w0 l1 req O l2,
  q_route req = RLogout -> q_meth req = c_logout_method cfg -> q_meth req <> PUT -> has_mod cfg MLogout = true ->
  let b := q_browser req in
  ob_resp (snd (step C cfg (fst (run C cfg w0 l1)) (AReq req) O)) <> None ->
  (forall p a O' s, l2 = p ++ (a, O') :: s ->
     ~ exists U, issued_at C cfg (fst (run C cfg w0 (l1 ++ (AReq req, O) :: p))) a O' b U) ->
  alookup k_uid (jar_get b (w_sess (fst (run C cfg w0 (l1 ++ (AReq req, O) :: l2))))) = None.
Proof. exact history_stays_logged_out_lemma. Qed.
Print Assumptions c10_history_stays_logged_out.

(* The form that can be read off the requests alone: no step between i and j is a request of b on
   one of the eight login paths ([can_login]: route and method; for application routes: a stack
   with the remember middleware, whatever the cookie), nor a harness action on b's session jar. *)
Theorem c10_may_issue_identity_reading : forall b a,
  may_issue_identity b a <->
  (exists req, a = AReq req /\ q_browser req = b /\
     match q_route req, q_meth req with
     | RLogin, POST | ROtpLogin, POST | RRegister, POST | RRecoverEnd, POST
     | ROAuthCallback _, GET | RTotpValidate, POST | RSmsValidate, POST => true
     | RApp _ _ _ _ _ true _, _ => true
     | _, _ => false
     end = true) \/
  (exists v, a = APlant b k_uid v) \/
  (exists j, a = ASetJar false b j).
Proof. reflexivity. Qed.
Print Assumptions c10_may_issue_identity_reading.

Theorem c10_history_stays_logged_out_routes : forall C cfg w0 l1 req O l2,
  q_route req = RLogout -> q_meth req = c_logout_method cfg -> q_meth req <> PUT -> has_mod cfg MLogout = true ->
  let b := q_browser req in
  ob_resp (snd (step C cfg (fst (run C cfg w0 l1)) (AReq req) O)) <> None ->
  Forall (fun ao => ~ may_issue_identity b (fst ao)) l2 ->
  alookup k_uid (jar_get b (w_sess (fst (run C cfg w0 (l1 ++ (AReq req, O) :: l2))))) = None.
Proof. exact history_stays_logged_out_routes_lemma. Qed.
Print Assumptions c10_history_stays_logged_out_routes.

(* the hypotheses are satisfiable, with a browser that WAS logged in: seed, login, logout
   (DELETE, response written), then a page fetch and an administrative lock *)
Example c10_history_stays_logged_out_nonvacuous :
  exists C cfg w0 l1 req O (l2 : list (action * oracle)),
    l2 <> [] /\
    q_route req = RLogout /\ q_meth req = c_logout_method cfg /\ q_meth req <> PUT /\ has_mod cfg MLogout = true /\
    alookup k_uid (jar_get (q_browser req) (w_sess (fst (run C cfg w0 l1)))) <> None /\
    ob_resp (snd (step C cfg (fst (run C cfg w0 l1)) (AReq req) O)) <> None /\
    Forall (fun ao => ~ may_issue_identity (q_browser req) (fst ao)) l2.
Proof. exact hx_logged_out_witness. Qed.
Print Assumptions c10_history_stays_logged_out_nonvacuous.

(* any session without identity, from any world: the contraposition of the provenance theorem *)
Theorem c10_history_stays_anonymous : forall C cfg w l b,
  alookup k_uid (jar_get b (w_sess w)) = None ->
  (forall p a O s, l = p ++ (a, O) :: s -> ~ exists U, issued_at C cfg (fst (run C cfg w p)) a O b U) ->
  alookup k_uid (jar_get b (w_sess (fst (run C cfg w l)))) = None.
Proof. exact history_stays_anonymous_lemma. Qed.
Print Assumptions c10_history_stays_anonymous.

(* ---- the wrapped deployment ------------------------------------------------------------------- *)
Theorem c10w_history_stays_logged_out : forall C cfg w0 l1 req O l2,
  q_route req = RLogout -> q_meth req = c_logout_method cfg -> q_meth req <> PUT -> has_mod cfg MLogout = true ->
  let b := q_browser req in
  ob_resp (snd (wstep C cfg (fst (wrun C cfg w0 l1)) (AReq req) O)) <> None ->
  (forall p a O' s, l2 = p ++ (a, O') :: s ->
     ~ exists U, wissued_at C cfg (fst (wrun C cfg w0 (l1 ++ (AReq req, O) :: p))) a O' b U) ->
  alookup k_uid (jar_get b (w_sess (fst (wrun C cfg w0 (l1 ++ (AReq req, O) :: l2))))) = None.
Proof. exact whistory_stays_logged_out_lemma. Qed.
Print Assumptions c10w_history_stays_logged_out.

(* under the wrapper every module route can log in by cookie, so the request-only class is larger *)
Theorem c10w_may_issue_identity_reading : forall cfg b a,
  wmay_issue_identity cfg b a <->
  (exists req, a = AReq req /\ q_browser req = b /\
     (can_login req = true \/ (c_wrap_remember cfg = true /\ is_app (q_route req) = false))) \/
  (exists v, a = APlant b k_uid v) \/
  (exists j, a = ASetJar false b j).
Proof. reflexivity. Qed.
Print Assumptions c10w_may_issue_identity_reading.

Theorem c10w_history_stays_logged_out_routes : forall C cfg w0 l1 req O l2,
  q_route req = RLogout -> q_meth req = c_logout_method cfg -> q_meth req <> PUT -> has_mod cfg MLogout = true ->
  let b := q_browser req in
  ob_resp (snd (wstep C cfg (fst (wrun C cfg w0 l1)) (AReq req) O)) <> None ->
  Forall (fun ao => ~ wmay_issue_identity cfg b (fst ao)) l2 ->
  alookup k_uid (jar_get b (w_sess (fst (wrun C cfg w0 (l1 ++ (AReq req, O) :: l2))))) = None.
Proof. exact whistory_stays_logged_out_routes_lemma. Qed.
Print Assumptions c10w_history_stays_logged_out_routes.

Example c10w_history_stays_logged_out_nonvacuous :
  exists C cfg w0 l1 req O (l2 : list (action * oracle)),
    c_wrap_remember cfg = true /\ l2 <> [] /\
    q_route req = RLogout /\ q_meth req = c_logout_method cfg /\ q_meth req <> PUT /\ has_mod cfg MLogout = true /\
    alookup k_uid (jar_get (q_browser req) (w_sess (fst (wrun C cfg w0 l1)))) <> None /\
    ob_resp (snd (wstep C cfg (fst (wrun C cfg w0 l1)) (AReq req) O)) <> None /\
    Forall (fun ao => ~ wmay_issue_identity cfg (q_browser req) (fst ao)) l2.
Proof. exact hx_wlogged_out_witness. Qed.
Print Assumptions c10w_history_stays_logged_out_nonvacuous.
