(* C15 — client-supplied return targets never leave the site (continued): the guard/classifier facts
   of Props/C15.v lifted to whole requests, for EVERY route of the router and every action. *)
From AB Require Import World.Step Model.Redirect Spec.Browser Proofs.RedirectProofs Proofs.StepAll.

(* The finite description.  A redirect answering [req] (whose browser's session at request start is
   [sess]) goes to
     - one of the configured / mount-relative targets [fixed_targets cfg req]:
         the nine configured paths (login-ok, confirm-ok, confirm-not-ok, lock-not-ok, logout-ok,
         oauth2-not-ok, recover-ok, register-ok, 2fa-email-not-ok),
         <mount>/2fa/totp/validate and <mount>/2fa/sms/validate (with the request's raw query carried along),
         <mount>/login?redir=<escaped current URL> (both ways the access middleware builds it),
         <mount>/2fa/{totp,sms}/setup, <mount>/2fa/{totp,sms}/confirm, and [<mount>/]2fa/{totp,sms}/email/verify;
     - or, ONLY on the four flows that honour the parameter (POST /login, POST /otp/login,
       POST /2fa/totp/validate, POST /2fa/sms/validate), the value of the redirect form/query parameter
       as the responder reads it, and then only if the guard [is_local_redirect] accepted it;
     - or, on GET /oauth2/<prov>, the provider's authorisation URL;
     - or, on /oauth2/callback/<prov>, the return target carried through the round trip in the session
       (oauth2_params): the configured oauth2-ok path, or the stored "redir" value if the guard accepted
       it, in both cases with the remaining pass-along parameters appended as a query string. *)
Theorem c15_allowed_location_reading : forall cfg req sess loc,
  allowed_location cfg req sess loc <->
  In loc (fixed_targets cfg req) \/
  (honours_redir req = true /\ loc = supplied_redir cfg req /\ is_local_redirect loc = true) \/
  match q_route req with
  | ROAuthStart _ => exists nonce, loc = provider_auth_url nonce
  | ROAuthCallback _ =>
      loc = oauth2_with_query (p_oauth_ok_of cfg) (oauth2_params sess) \/
      exists t, alookup (bs "redir") (oauth2_params sess) = Some t /\ is_local_redirect t = true /\
                loc = oauth2_with_query t (oauth2_params sess)
  | _ => False
  end.
Proof. exact allowed_location_reading. Qed.
Print Assumptions c15_allowed_location_reading.

Theorem c15_fixed_targets_reading : forall cfg req,
  fixed_targets cfg req =
  [ p_login_ok_of cfg; p_confirm_ok_of cfg; p_confirm_notok_of cfg; p_lock_notok_of cfg; p_logout_ok_of cfg;
    p_oauth_notok_of cfg; p_recover_ok_of cfg; p_register_ok_of cfg; p_2fa_email_notok_of cfg;
    carry_query req (c_mount cfg ++ bs "/2fa/totp/validate");
    carry_query req (c_mount cfg ++ bs "/2fa/sms/validate");
    login_redir_target cfg req true; login_redir_target cfg req false;
    c_mount cfg ++ bs "/2fa/" ++ kind_name KTotp ++ bs "/setup";
    c_mount cfg ++ bs "/2fa/" ++ kind_name KSms ++ bs "/setup";
    c_mount cfg ++ bs "/2fa/totp/confirm"; c_mount cfg ++ bs "/2fa/sms/confirm";
    email_verify_target cfg KTotp; email_verify_target cfg KSms ].
Proof. exact fixed_targets_reading. Qed.
Print Assumptions c15_fixed_targets_reading.

(* Every request, on every route, under every configuration, world and oracle (storage faults
   included): if the response is a redirect (a 302 or the API's JSON redirect) then its location is
   an allowed location. *)
Theorem c15_step_redirects_local : forall C cfg w req O loc,
  redirects_to (snd (step C cfg w (AReq req) O)) loc ->
  allowed_location cfg req (jar_get (q_browser req) (w_sess w)) loc.
Proof. exact c15_step_redirects_local_lemma. Qed.
Print Assumptions c15_step_redirects_local.

(* [redirects_to], spelled out *)
Theorem c15_redirects_to_reading : forall o loc,
  redirects_to o loc <->
  ob_resp o = Some (RespRedirect302 loc) \/ exists st f, ob_resp o = Some (RespRedirectAPI st loc f).
Proof. exact redirects_to_reading. Qed.
Print Assumptions c15_redirects_to_reading.

(* the four flows that honour the parameter *)
Theorem c15_honours_redir_reading : forall req,
  honours_redir req = true <->
  q_meth req = POST /\ (q_route req = RLogin \/ q_route req = ROtpLogin \/ q_route req = RTotpValidate \/ q_route req = RSmsValidate).
Proof. exact honours_redir_reading. Qed.
Print Assumptions c15_honours_redir_reading.

(* all actions: only requests ever answer with a redirect *)
Theorem c15_only_requests_redirect : forall C cfg w a O loc,
  redirects_to (snd (step C cfg w a O)) loc ->
  exists req, a = AReq req /\ allowed_location cfg req (jar_get (q_browser req) (w_sess w)) loc.
Proof. exact c15_only_requests_redirect_lemma. Qed.
Print Assumptions c15_only_requests_redirect.

(* a supplied value the guard refuses is ignored in favour of a configured target *)
Theorem c15_refused_value_ignored : forall C cfg w req O loc,
  is_local_redirect (supplied_redir cfg req) = false ->
  redirects_to (snd (step C cfg w (AReq req) O)) loc ->
  In loc (fixed_targets cfg req) \/ route_extra cfg req (jar_get (q_browser req) (w_sess w)) loc.
Proof. exact c15_refused_value_ignored_lemma. Qed.
Print Assumptions c15_refused_value_ignored.

(* an allowed location that is not one of the configured ones is the supplied value, the flow is
   one of the four that honour it, the guard accepted it, and a browser resolves it — as sent, after
   net/http's escaping, and after http.Redirect's rewrite — on the same site *)
Theorem c15_supplied_value_safe : forall cfg req sess loc,
  allowed_location cfg req sess loc -> ~ In loc (fixed_targets cfg req) -> ~ route_extra cfg req sess loc ->
  honours_redir req = true /\ loc = supplied_redir cfg req /\ is_local_redirect loc = true /\
  same_site loc = true /\ same_site (hex_escape_non_ascii loc) = true /\ same_site (http_redirect_rewrite loc) = true.
Proof. exact c15_supplied_value_safe_lemma. Qed.
Print Assumptions c15_supplied_value_safe.

(* with a sane mount path (empty, or one slash followed by an ordinary byte), EVERY allowed location
   except the provider's authorisation URL of the OAuth2 start route is resolved by the browser model
   on the same site — the configured ones, the mount-relative ones with whatever query the client sent
   carried along, the supplied value, and the OAuth2 return target with its pass-along query *)
Theorem c15_allowed_same_site : forall cfg req sess loc,
  mount_ok (c_mount cfg) = true ->
  (forall p, q_route req <> ROAuthStart p) ->
  allowed_location cfg req sess loc -> same_site loc = true.
Proof. exact allowed_same_site_lemma. Qed.
Print Assumptions c15_allowed_same_site.

Theorem c15_step_same_site : forall C cfg w req O loc,
  mount_ok (c_mount cfg) = true ->
  (forall p, q_route req <> ROAuthStart p) ->
  redirects_to (snd (step C cfg w (AReq req) O)) loc -> same_site loc = true.
Proof. exact c15_step_same_site_lemma. Qed.
Print Assumptions c15_step_same_site.

Example c15_mount_ok_examples :
  map mount_ok (map list_byte_of_string [""; "/auth"; "/"; "//evil.test"; "auth"]%string) = [true; true; false; false; false].
Proof. reflexivity. Qed.
