(* C08 — the access middleware admits a request only when its requirements are met. *)
From AB Require Import World.Handlers Proofs.MonadInv Proofs.Gate Proofs.Misc Proofs.HandlerEvents Proofs.EvLogic Proofs.Neutral.

(* If the middleware lets the wrapped handler run, then: the full-auth / 2FA requirements hold
   of the session, a user is in the request context, and — when none was cached before — it is
   the record storage holds under the session's user id (which is non-empty); the middleware
   itself wrote nothing and changed no client state.  For every requirement combination,
   refusal mode, mount-path setting, session, storage and fault oracle. *)
Theorem c08_gate_admits : forall E mp full tf fr h h',
  auth_middleware E mp full tf fr h = (Ok true, h') ->
  reqs_ok E full tf = true /\
  (exists u, h_cuser h' = Some u) /\
  (h_cuser h = None -> h_cpid h = None ->
     bempty (aget k_uid (e_sess E)) = false /\
     exists u, ulookup (aget k_uid (e_sess E)) (s_users (h_st h)) = Some u /\ h_cuser h' = Some u) /\
  h_sev h' = h_sev h /\ h_cev h' = h_cev h /\ h_out h' = h_out h /\ h_st h' = h_st h.
Proof. exact auth_middleware_admits. Qed.
Print Assumptions c08_gate_admits.

(* whatever it does (admit, refuse, fail) it never touches the session's user identity and
   never panics *)
Theorem c08_gate_neutral : forall E mp full tf fr,
  evs_all sess_neutral any_ev (auth_middleware E mp full tf fr).
Proof. exact neutral_auth_middleware. Qed.
Print Assumptions c08_gate_neutral.

Theorem c08_gate_no_panic : forall E mp full tf fr, np (auth_middleware E mp full tf fr).
Proof. exact np_auth_middleware. Qed.
Print Assumptions c08_gate_no_panic.

(* the redir parameter of the login redirect decodes back to exactly the original path and
   query: for ALL byte strings *)
Theorem c08_redirect_target_roundtrip : forall p : bytes,
  Base.Text.query_unescape (S (length (Base.Text.query_escape p))) (Base.Text.query_escape p) = Some p.
Proof. exact redirect_target_roundtrip. Qed.
Print Assumptions c08_redirect_target_roundtrip.
