(* C15 — client-supplied return targets never leave the site. *)
From AB Require Import Model.Redirect Spec.Browser Proofs.RedirectProofs.

(* every value the guard accepts is resolved by a browser on the same site, and so is what
   net/http.Redirect makes of it: for ALL byte strings *)
Theorem c15_safe : forall s, is_local_redirect s = true ->
  same_site s = true /\ same_site (hex_escape_non_ascii s) = true /\ same_site (http_redirect_rewrite s) = true.
Proof. exact c15_safe_lemma. Qed.
Print Assumptions c15_safe.

(* whatever the client supplies, the chosen target is the accepted value or the default *)
Theorem c15_target : forall redir default follow,
  redirect_target redir default follow = default \/
  (redirect_target redir default follow = redir /\ is_local_redirect redir = true /\ follow = true).
Proof. exact c15_target_lemma. Qed.
Print Assumptions c15_target.

Theorem c15_target_safe : forall redir default follow,
  same_site default = true -> same_site (http_redirect_rewrite default) = true ->
  same_site (redirect_target redir default follow) = true /\
  same_site (http_redirect_rewrite (redirect_target redir default follow)) = true.
Proof. exact c15_target_safe_lemma. Qed.
Print Assumptions c15_target_safe.

(* the guard that was replaced let off-site values through (kept as the refutation witness
   that the correspondence check replayed on the implementation before the repair) *)
Theorem c15_old_guard_refuted : exists s, guard_substring s = true /\ same_site s = false.
Proof. exact c15_old_guard_refuted_lemma. Qed.
Print Assumptions c15_old_guard_refuted.

Example c15_examples :
  map is_local_redirect (map list_byte_of_string ["/dash?x=1"; "//evil.test"; "/\evil.test"; "https:/evil.test"; "/a//b"; "/"]%string)
  = [true; false; false; false; true; true].
Proof. reflexivity. Qed.
