(* C14 — codec part: distinct (provider, uid) pairs never share an account identifier, for
   provider names free of the separator and ALL uid byte strings. *)
From AB Require Import Model.Codecs Proofs.CodecProofs.

Theorem c14_make_inj : forall p1 u1 p2 u2, no_semi p1 -> no_semi p2 ->
  make_pid p1 u1 = make_pid p2 u2 -> p1 = p2 /\ u1 = u2.
Proof. exact c14_make_inj_lemma. Qed.
Print Assumptions c14_make_inj.

(* the hypothesis is needed: with a separator in the provider name two pairs collide *)
Theorem c14_separator_needed : exists p1 u1 p2 u2, (p1, u1) <> (p2, u2) /\ make_pid p1 u1 = make_pid p2 u2.
Proof. exact c14_separator_needed_lemma. Qed.
Print Assumptions c14_separator_needed.
