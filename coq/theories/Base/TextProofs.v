(* Round-trip facts for the text codecs of Text.v:
   net/url QueryEscape / QueryUnescape, and strconv decimal formatting / parsing. *)
From AB Require Import Base.Bytes Base.Base64 Base.Text.
From Coq Require Import NArith ZArith Lia List Bool ZifyN ZifyNat.
Import ListNotations.
Open Scope N_scope.

(* ================= url.QueryEscape / url.QueryUnescape ================= *)

(* ---------- unfolding equations ---------- *)

Lemma qe_cons c r :
  query_escape (c :: r) =
  if unreserved c then c :: query_escape r
  else if Byte.eqb c x20 then "+"%byte :: query_escape r
  else "%"%byte :: hexupper (Byte.to_N c / 16) :: hexupper (Byte.to_N c mod 16) :: query_escape r.
Proof. reflexivity. Qed.

Lemma qu_pct f h l r :
  query_unescape (S f) ("%"%byte :: h :: l :: r) =
  match unhex h, unhex l, query_unescape f r with
  | Some a, Some b, Some t => Some (byteN (a * 16 + b) :: t)
  | _, _, _ => None
  end.
Proof. reflexivity. Qed.

Lemma qu_plus f r :
  query_unescape (S f) ("+"%byte :: r) = option_map (cons x20) (query_unescape f r).
Proof. reflexivity. Qed.

Lemma qu_other f c r :
  Byte.eqb c "%"%byte = false -> Byte.eqb c "+"%byte = false ->
  query_unescape (S f) (c :: r) = option_map (cons c) (query_unescape f r).
Proof.
  intros Hpct Hplus. cbn [query_unescape]. rewrite Hpct, Hplus. reflexivity.
Qed.

(* ---------- per-byte facts (256 cases each) ---------- *)

Lemma unreserved_not_meta c :
  unreserved c = true -> Byte.eqb c "%"%byte = false /\ Byte.eqb c "+"%byte = false.
Proof.
  destruct c; vm_compute; intros Hu; try discriminate Hu; split; reflexivity.
Qed.

Lemma hex_roundtrip c :
  unhex (hexupper (Byte.to_N c / 16)) = Some (Byte.to_N c / 16) /\
  unhex (hexupper (Byte.to_N c mod 16)) = Some (Byte.to_N c mod 16) /\
  byteN (Byte.to_N c / 16 * 16 + Byte.to_N c mod 16) = c.
Proof.
  destruct c; vm_compute; (split; [reflexivity|split; reflexivity]).
Qed.

(* ---------- round trip ---------- *)

Theorem query_unescape_escape : forall s fuel,
  (length (query_escape s) < fuel)%nat -> query_unescape fuel (query_escape s) = Some s.
Proof.
  induction s as [|c r IH]; intros fuel Hfuel.
  - destruct fuel as [|f]; [inversion Hfuel|]. reflexivity.
  - destruct fuel as [|f]; [inversion Hfuel|].
    rewrite qe_cons in Hfuel |- *.
    destruct (unreserved c) eqn:Hu.
    + destruct (unreserved_not_meta c Hu) as [Hpct Hplus].
      cbn [length] in Hfuel.
      rewrite (qu_other f c _ Hpct Hplus).
      rewrite IH by lia. reflexivity.
    + destruct (Byte.eqb c x20) eqn:Hsp.
      * apply Byte.byte_dec_bl in Hsp. subst c.
        cbn [length] in Hfuel.
        rewrite qu_plus. rewrite IH by lia. reflexivity.
      * destruct (hex_roundtrip c) as [Hh [Hl Hb]].
        cbn [length] in Hfuel.
        rewrite qu_pct, Hh, Hl. rewrite IH by lia. rewrite Hb. reflexivity.
Qed.

Corollary query_escape_inj : forall a b, query_escape a = query_escape b -> a = b.
Proof.
  intros a b Heq.
  pose proof (query_unescape_escape a (S (length (query_escape a))) (Nat.lt_succ_diag_r _)) as Ha.
  rewrite Heq in Ha. rewrite query_unescape_escape in Ha by apply Nat.lt_succ_diag_r.
  injection Ha as Hab. symmetry. exact Hab.
Qed.

(* ---------- the escaped form contains no URL metacharacters ---------- *)

Definition qe_ok (c : byte) : bool :=
  negb (Byte.eqb c "/"%byte) && negb (Byte.eqb c "?"%byte) && negb (Byte.eqb c "&"%byte) &&
  negb (Byte.eqb c "="%byte) && negb (Byte.eqb c "#"%byte).

Lemma qe_ok_byte c :
  (unreserved c = true -> qe_ok c = true) /\
  qe_ok (hexupper (Byte.to_N c / 16)) = true /\
  qe_ok (hexupper (Byte.to_N c mod 16)) = true.
Proof.
  destruct c; vm_compute;
    (split; [intros Hu; first [reflexivity | discriminate Hu] | split; reflexivity]).
Qed.

Lemma query_escape_no_special : forall s,
  forallb (fun c => negb (Byte.eqb c "/"%byte) && negb (Byte.eqb c "?"%byte) &&
                    negb (Byte.eqb c "&"%byte) && negb (Byte.eqb c "="%byte) &&
                    negb (Byte.eqb c "#"%byte)) (query_escape s) = true.
Proof.
  intros s. change (forallb qe_ok (query_escape s) = true).
  induction s as [|c r IH]; [reflexivity|].
  rewrite qe_cons. destruct (qe_ok_byte c) as [Hun [Hhi Hlo]].
  destruct (unreserved c) eqn:Hu.
  - cbn [forallb]. rewrite (Hun eq_refl), IH. reflexivity.
  - destruct (Byte.eqb c x20) eqn:Hsp.
    + cbn [forallb]. rewrite IH. reflexivity.
    + cbn [forallb]. rewrite Hhi, Hlo, IH. reflexivity.
Qed.

(* ================= strconv: decimal formatting / parsing ================= *)

Lemma to_N_byteN n : n < 256 -> Byte.to_N (byteN n) = n.
Proof.
  intros Hn. unfold byteN. destruct (Byte.of_N n) as [b|] eqn:E.
  - apply Byte.to_of_N. exact E.
  - apply Byte.of_N_None_iff in E. lia.
Qed.

Lemma nparse_digit n rest a :
  nparse_aux (byteN (48 + n mod 10) :: rest) a = nparse_aux rest (a * 10 + n mod 10).
Proof.
  assert (Hm : n mod 10 < 10) by (apply N.mod_lt; discriminate).
  set (m := n mod 10) in *. clearbody m.
  cbn [nparse_aux]. rewrite to_N_byteN by lia.
  assert (E : (48 <=? 48 + m) && (48 + m <=? 57) = true).
  { apply andb_true_iff. split; apply N.leb_le; lia. }
  rewrite E. replace (48 + m - 48) with m by lia. reflexivity.
Qed.

(* ndec_aux prepends to acc a non-empty digit string that parses back to n,
   provided the fuel covers the number of digits *)
Lemma ndec_aux_spec : forall fuel n acc,
  (0 < fuel)%nat -> n < 10 ^ N.of_nat fuel ->
  exists ds, ds <> [] /\ ndec_aux fuel n acc = ds ++ acc /\
    forall a rest, nparse_aux (ds ++ rest) a = nparse_aux rest (a * 10 ^ N.of_nat (length ds) + n).
Proof.
  induction fuel as [|f IH]; intros n acc Hpos Hn; [inversion Hpos|].
  cbn [ndec_aux]. destruct (n <? 10) eqn:Hlt.
  - apply N.ltb_lt in Hlt.
    exists [byteN (48 + n mod 10)]. split; [discriminate|]. split; [reflexivity|].
    intros a rest. cbn [app length]. rewrite nparse_digit.
    rewrite (N.mod_small n 10 Hlt).
    change (N.of_nat 1) with 1. rewrite N.pow_1_r. reflexivity.
  - apply N.ltb_ge in Hlt.
    rewrite Nat2N.inj_succ, N.pow_succ_r' in Hn.
    assert (Hf : (0 < f)%nat).
    { destruct f as [|f']; [|lia]. change (10 ^ N.of_nat 0) with 1 in Hn. lia. }
    assert (Hq : n / 10 < 10 ^ N.of_nat f).
    { apply N.div_lt_upper_bound; [discriminate|exact Hn]. }
    destruct (IH (n / 10) (byteN (48 + n mod 10) :: acc) Hf Hq) as (ds' & Hne & Heq & Hparse).
    exists (ds' ++ [byteN (48 + n mod 10)]). split; [|split].
    + destruct ds'; discriminate.
    + rewrite Heq, <- app_assoc. reflexivity.
    + intros a rest. rewrite <- app_assoc. cbn [app].
      rewrite Hparse, nparse_digit. f_equal.
      rewrite app_length. cbn [length]. rewrite Nat2N.inj_add.
      change (N.of_nat 1) with 1. rewrite N.pow_add_r, N.pow_1_r.
      pose proof (N.div_mod' n 10) as Hdm.
      set (q := n / 10) in *. set (m := n mod 10) in *.
      set (P := 10 ^ N.of_nat (length ds')).
      clearbody q m P. rewrite Hdm. ring.
Qed.

Lemma ndec_parse n :
  n < 10 ^ 40 -> exists c r, ndec n = c :: r /\ nparse_aux (c :: r) 0 = Some n.
Proof.
  intros Hn. unfold ndec.
  assert (Hpos : (0 < 40)%nat) by lia.
  change (10 ^ 40) with (10 ^ N.of_nat 40) in Hn.
  destruct (ndec_aux_spec 40 n [] Hpos Hn) as (ds & Hne & Heq & Hparse).
  rewrite app_nil_r in Heq.
  destruct ds as [|c r]; [contradiction Hne; reflexivity|].
  exists c, r. split; [exact Heq|].
  specialize (Hparse 0 []). rewrite app_nil_r in Hparse. rewrite Hparse.
  cbn [nparse_aux]. rewrite N.mul_0_l, N.add_0_l. reflexivity.
Qed.

Lemma digit_not_sign c :
  (48 <=? Byte.to_N c) && (Byte.to_N c <=? 57) = true ->
  Byte.eqb c "-"%byte = false /\ Byte.eqb c "+"%byte = false.
Proof.
  destruct c; vm_compute; intros Hd; try discriminate Hd; split; reflexivity.
Qed.

Lemma nparse_head c r a n :
  nparse_aux (c :: r) a = Some n ->
  Byte.eqb c "-"%byte = false /\ Byte.eqb c "+"%byte = false.
Proof.
  cbn [nparse_aux]. intros Hp.
  destruct ((48 <=? Byte.to_N c) && (Byte.to_N c <=? 57)) eqn:Hd; [|discriminate Hp].
  apply digit_not_sign. exact Hd.
Qed.

Lemma zparse_unsigned c r :
  Byte.eqb c "-"%byte = false -> Byte.eqb c "+"%byte = false ->
  zparse (c :: r) = option_map Z.of_N (nparse_aux (c :: r) 0).
Proof. intros Hm Hp. unfold zparse. rewrite Hm, Hp. reflexivity. Qed.

Lemma zparse_neg c r :
  zparse ("-"%byte :: c :: r) = option_map (fun n => Z.opp (Z.of_N n)) (nparse_aux (c :: r) 0).
Proof. reflexivity. Qed.

(* zdec uses fuel 40, so the round trip holds for |z| < 10^40 (far beyond int64) *)
Lemma zparse_zdec : forall z, (Z.abs z < 10 ^ 40)%Z -> zparse (zdec z) = Some z.
Proof.
  intros z Hz. destruct z as [|p|p].
  - reflexivity.
  - assert (Hn : N.pos p < 10 ^ 40).
    { apply N2Z.inj_lt. exact Hz. }
    destruct (ndec_parse (N.pos p) Hn) as (c & r & Hd & Hp).
    destruct (nparse_head c r 0 _ Hp) as [Hm Hpl].
    unfold zdec. rewrite Hd, (zparse_unsigned c r Hm Hpl), Hp. reflexivity.
  - assert (Hn : N.pos p < 10 ^ 40).
    { apply N2Z.inj_lt. exact Hz. }
    destruct (ndec_parse (N.pos p) Hn) as (c & r & Hd & Hp).
    unfold zdec. rewrite Hd, zparse_neg, Hp. reflexivity.
Qed.

(* every int64 is within the bound *)
Corollary zparse_zdec_int64 : forall z,
  (- 2 ^ 63 <= z < 2 ^ 63)%Z -> zparse (zdec z) = Some z.
Proof.
  intros z Hz. apply zparse_zdec.
  assert (H63 : (2 ^ 63 < 10 ^ 40)%Z) by reflexivity.
  lia.
Qed.

Print Assumptions query_unescape_escape.
Print Assumptions query_escape_no_special.
Print Assumptions zparse_zdec.
Print Assumptions zparse_zdec_int64.
