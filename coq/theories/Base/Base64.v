(* encoding/base64 StdEncoding and URLEncoding (padded, non-strict), as used by the
   library: EncodeToString / DecodeString.  DecodeString ignores CR and LF anywhere,
   requires a whole number of 4-character groups, '=' padding only at the very end. *)
From AB Require Import Base.Bytes.
From Coq Require Import NArith.
Open Scope N_scope.

Definition byteN (n : N) : byte := match Byte.of_N n with Some b => b | None => x00 end.

Definition enc_char (url : bool) (n : N) : byte :=
  if n <? 26 then byteN (65 + n)
  else if n <? 52 then byteN (97 + (n - 26))
  else if n <? 62 then byteN (48 + (n - 52))
  else if n =? 62 then (if url then "-"%byte else "+"%byte)
  else (if url then "_"%byte else "/"%byte).

Definition dec_char (url : bool) (c : byte) : option N :=
  let n := Byte.to_N c in
  if (65 <=? n) && (n <=? 90) then Some (n - 65)
  else if (97 <=? n) && (n <=? 122) then Some (n - 97 + 26)
  else if (48 <=? n) && (n <=? 57) then Some (n - 48 + 52)
  else if n =? (if url then 45 else 43) then Some 62
  else if n =? (if url then 95 else 47) then Some 63
  else None.

Definition pad : byte := "="%byte.

Fixpoint b64_encode (url : bool) (s : bytes) : bytes :=
  match s with
  | [] => []
  | [a] =>
      let x := Byte.to_N a in
      [enc_char url (x / 4); enc_char url ((x mod 4) * 16); pad; pad]
  | [a; b] =>
      let x := Byte.to_N a in let y := Byte.to_N b in
      [enc_char url (x / 4); enc_char url ((x mod 4) * 16 + y / 16);
       enc_char url ((y mod 16) * 4); pad]
  | a :: b :: c :: r =>
      let x := Byte.to_N a in let y := Byte.to_N b in let z := Byte.to_N c in
      enc_char url (x / 4) :: enc_char url ((x mod 4) * 16 + y / 16) ::
      enc_char url ((y mod 16) * 4 + z / 64) :: enc_char url (z mod 64) :: b64_encode url r
  end.

Definition is_crlf (c : byte) : bool := Byte.eqb c x0a || Byte.eqb c x0d.

(* decode a CR/LF-free string, four characters at a time *)
Fixpoint b64_decode_quads (url : bool) (fuel : nat) (s : bytes) : option bytes :=
  match fuel with
  | O => None
  | S fuel' =>
    match s with
    | [] => Some []
    | [c1; c2; p1; p2] =>
        match dec_char url c1, dec_char url c2 with
        | Some n1, Some n2 =>
            if Byte.eqb p1 pad then
              if Byte.eqb p2 pad then Some [byteN (n1 * 4 + n2 / 16)] else None
            else match dec_char url p1 with
                 | Some n3 =>
                     if Byte.eqb p2 pad
                     then Some [byteN (n1 * 4 + n2 / 16); byteN ((n2 mod 16) * 16 + n3 / 4)]
                     else match dec_char url p2 with
                          | Some n4 => Some [byteN (n1 * 4 + n2 / 16); byteN ((n2 mod 16) * 16 + n3 / 4);
                                             byteN ((n3 mod 4) * 64 + n4)]
                          | None => None
                          end
                 | None => None
                 end
        | _, _ => None
        end
    | c1 :: c2 :: c3 :: c4 :: r =>
        match dec_char url c1, dec_char url c2, dec_char url c3, dec_char url c4 with
        | Some n1, Some n2, Some n3, Some n4 =>
            match b64_decode_quads url fuel' r with
            | Some t => Some (byteN (n1 * 4 + n2 / 16) :: byteN ((n2 mod 16) * 16 + n3 / 4) ::
                              byteN ((n3 mod 4) * 64 + n4) :: t)
            | None => None
            end
        | _, _, _, _ => None
        end
    | _ => None
    end
  end.

Definition b64_decode (url : bool) (s : bytes) : option bytes :=
  let t := filter (fun c => negb (is_crlf c)) s in
  b64_decode_quads url (S (length t)) t.

Definition b64std_enc := b64_encode false.
Definition b64std_dec := b64_decode false.
Definition b64url_enc := b64_encode true.
Definition b64url_dec := b64_decode true.

(* lower-case hex, fmt "%x" of a byte slice *)
Definition hexdigit (n : N) : byte := if n <? 10 then byteN (48 + n) else byteN (87 + n).
Fixpoint hex_encode (s : bytes) : bytes :=
  match s with
  | [] => []
  | a :: r => let x := Byte.to_N a in hexdigit (x / 16) :: hexdigit (x mod 16) :: hex_encode r
  end.

(* encoding/base32 StdEncoding without padding (pquerna/otp secrets) *)
Definition b32_char (n : N) : byte := if n <? 26 then byteN (65 + n) else byteN (50 + (n - 26)).
Fixpoint bits_of_bytes (s : bytes) : list bool :=
  match s with
  | [] => []
  | a :: r => let x := Byte.to_N a in
      N.testbit x 7 :: N.testbit x 6 :: N.testbit x 5 :: N.testbit x 4 ::
      N.testbit x 3 :: N.testbit x 2 :: N.testbit x 1 :: N.testbit x 0 :: bits_of_bytes r
  end.
Definition b2n (b : bool) : N := if b then 1 else 0.
Fixpoint b32_groups (fuel : nat) (l : list bool) : bytes :=
  match fuel with
  | O => []
  | S f =>
    match l with
    | [] => []
    | a :: b :: c :: d :: e :: r =>
        b32_char (b2n a * 16 + b2n b * 8 + b2n c * 4 + b2n d * 2 + b2n e) :: b32_groups f r
    | a :: b :: c :: [d] => [b32_char (b2n a * 16 + b2n b * 8 + b2n c * 4 + b2n d * 2)]
    | a :: b :: [c] => [b32_char (b2n a * 16 + b2n b * 8 + b2n c * 4)]
    | a :: [b] => [b32_char (b2n a * 16 + b2n b * 8)]
    | [a] => [b32_char (b2n a * 16)]
    end
  end.
Definition b32_encode_nopad (s : bytes) : bytes :=
  let l := bits_of_bytes s in b32_groups (S (length l)) l.
