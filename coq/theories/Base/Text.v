(* Small text codecs used by the handlers: decimal integers (strconv), url.QueryEscape. *)
From AB Require Import Base.Bytes Base.Base64.
From Coq Require Import NArith.
Open Scope N_scope.

Fixpoint ndec_aux (fuel : nat) (n : N) (acc : bytes) : bytes :=
  match fuel with
  | O => acc
  | S f => let d := byteN (48 + n mod 10) in
           if n <? 10 then d :: acc else ndec_aux f (n / 10) (d :: acc)
  end.
Definition ndec (n : N) : bytes := ndec_aux 40 n [].
Definition zdec (z : Z) : bytes :=
  match z with
  | Z0 => ["0"%byte]
  | Zpos p => ndec (Npos p)
  | Zneg p => "-"%byte :: ndec (Npos p)
  end.

Fixpoint nparse_aux (s : bytes) (acc : N) : option N :=
  match s with
  | [] => Some acc
  | c :: r => let n := Byte.to_N c in
              if (48 <=? n) && (n <=? 57) then nparse_aux r (acc * 10 + (n - 48)) else None
  end.
(* strconv.ParseInt(s, 10, 64) without the range check *)
Definition zparse (s : bytes) : option Z :=
  match s with
  | [] => None
  | c :: r =>
      if Byte.eqb c "-"%byte then
        match r with [] => None | _ => option_map (fun n => Z.opp (Z.of_N n)) (nparse_aux r 0) end
      else if Byte.eqb c "+"%byte then
        match r with [] => None | _ => option_map Z.of_N (nparse_aux r 0) end
      else option_map Z.of_N (nparse_aux s 0)
  end.

Definition hexupper (n : N) : byte := if n <? 10 then byteN (48 + n) else byteN (55 + n).
Definition unreserved (b : byte) : bool :=
  let n := Byte.to_N b in
  ((65 <=? n) && (n <=? 90)) || ((97 <=? n) && (n <=? 122)) || ((48 <=? n) && (n <=? 57)) ||
  (n =? 45) || (n =? 95) || (n =? 46) || (n =? 126).
(* net/url.QueryEscape *)
Fixpoint query_escape (s : bytes) : bytes :=
  match s with
  | [] => []
  | c :: r =>
      if unreserved c then c :: query_escape r
      else if Byte.eqb c x20 then "+"%byte :: query_escape r
      else let n := Byte.to_N c in "%"%byte :: hexupper (n / 16) :: hexupper (n mod 16) :: query_escape r
  end.

Definition unhex (b : byte) : option N :=
  let n := Byte.to_N b in
  if (48 <=? n) && (n <=? 57) then Some (n - 48)
  else if (65 <=? n) && (n <=? 70) then Some (n - 55)
  else if (97 <=? n) && (n <=? 102) then Some (n - 87)
  else None.
(* net/url.QueryUnescape *)
Fixpoint query_unescape (fuel : nat) (s : bytes) : option bytes :=
  match fuel with
  | O => None
  | S f =>
    match s with
    | [] => Some []
    | c :: r =>
        if Byte.eqb c "%"%byte then
          match r with
          | h :: l :: r' =>
              match unhex h, unhex l, query_unescape f r' with
              | Some a, Some b, Some t => Some (byteN (a * 16 + b) :: t)
              | _, _, _ => None
              end
          | _ => None
          end
        else if Byte.eqb c "+"%byte then option_map (cons x20) (query_unescape f r)
        else option_map (cons c) (query_unescape f r)
    end
  end.
