(* Round-trip and character-set facts for the base64 codec of Base64.v
   (encoding/base64 StdEncoding and URLEncoding, padded). *)
From AB Require Import Base.Bytes Base.Base64.
From Coq Require Import NArith ZArith Lia List Bool ZifyN ZifyNat.
Import ListNotations.
Open Scope N_scope.

(* linear arithmetic over N with division / modulo by constants *)
Ltac ndiv_lia := zify; Z.to_euclidean_division_equations; lia.

(* ---------- bytes as numbers ---------- *)

Lemma byteN_to_N (a : byte) : byteN (Byte.to_N a) = a.
Proof. unfold byteN. rewrite Byte.of_to_N. reflexivity. Qed.

Lemma to_N_lt (a : byte) : Byte.to_N a < 256.
Proof. pose proof (Byte.to_N_bounded a) as Hb. lia. Qed.

(* ---------- character level: the 64 sextets ---------- *)

Definition sextets : list N := map N.of_nat (seq 0 64).

Lemma in_sextets (n : N) : n < 64 -> In n sextets.
Proof.
  intros Hn. unfold sextets. rewrite <- (N2Nat.id n).
  apply in_map. apply in_seq. lia.
Qed.

Definition char_ok (url : bool) (n : N) : bool :=
  match dec_char url (enc_char url n) with Some m => m =? n | None => false end
  && negb (Byte.eqb (enc_char url n) pad)
  && negb (is_crlf (enc_char url n))
  && negb (Byte.eqb ","%byte (enc_char url n)).

Lemma char_ok_all (url : bool) : forallb (char_ok url) sextets = true.
Proof. destruct url; vm_compute; reflexivity. Qed.

Lemma char_ok_lt (url : bool) (n : N) : n < 64 -> char_ok url n = true.
Proof.
  intros Hn. pose proof (char_ok_all url) as Hall.
  rewrite forallb_forall in Hall. apply Hall. apply in_sextets. exact Hn.
Qed.

Lemma dec_enc_char (url : bool) (n : N) :
  n < 64 -> dec_char url (enc_char url n) = Some n.
Proof.
  intros Hn. pose proof (char_ok_lt url n Hn) as Hok. unfold char_ok in Hok.
  apply andb_true_iff in Hok as [Hok _].
  apply andb_true_iff in Hok as [Hok _].
  apply andb_true_iff in Hok as [Hok _].
  destruct (dec_char url (enc_char url n)) as [m|]; [|discriminate Hok].
  apply N.eqb_eq in Hok. subst m. reflexivity.
Qed.

Lemma enc_char_not_pad (url : bool) (n : N) :
  n < 64 -> Byte.eqb (enc_char url n) pad = false.
Proof.
  intros Hn. pose proof (char_ok_lt url n Hn) as Hok. unfold char_ok in Hok.
  apply andb_true_iff in Hok as [Hok _].
  apply andb_true_iff in Hok as [Hok _].
  apply andb_true_iff in Hok as [_ Hok].
  apply negb_true_iff in Hok. exact Hok.
Qed.

Lemma enc_char_not_crlf (url : bool) (n : N) :
  n < 64 -> is_crlf (enc_char url n) = false.
Proof.
  intros Hn. pose proof (char_ok_lt url n Hn) as Hok. unfold char_ok in Hok.
  apply andb_true_iff in Hok as [Hok _].
  apply andb_true_iff in Hok as [_ Hok].
  apply negb_true_iff in Hok. exact Hok.
Qed.

Lemma enc_char_not_comma (url : bool) (n : N) :
  n < 64 -> Byte.eqb ","%byte (enc_char url n) = false.
Proof.
  intros Hn. pose proof (char_ok_lt url n Hn) as Hok. unfold char_ok in Hok.
  apply andb_true_iff in Hok as [_ Hok].
  apply negb_true_iff in Hok. exact Hok.
Qed.

(* ---------- unfolding equations (all by computation) ---------- *)

Lemma enc0 url : b64_encode url [] = [].
Proof. reflexivity. Qed.

Lemma enc1 url a :
  b64_encode url [a] =
  [enc_char url (Byte.to_N a / 4); enc_char url ((Byte.to_N a mod 4) * 16); pad; pad].
Proof. reflexivity. Qed.

Lemma enc2 url a b :
  b64_encode url [a; b] =
  [enc_char url (Byte.to_N a / 4);
   enc_char url ((Byte.to_N a mod 4) * 16 + Byte.to_N b / 16);
   enc_char url ((Byte.to_N b mod 16) * 4); pad].
Proof. reflexivity. Qed.

Lemma enc3 url a b c r :
  b64_encode url (a :: b :: c :: r) =
  enc_char url (Byte.to_N a / 4) ::
  enc_char url ((Byte.to_N a mod 4) * 16 + Byte.to_N b / 16) ::
  enc_char url ((Byte.to_N b mod 16) * 4 + Byte.to_N c / 64) ::
  enc_char url (Byte.to_N c mod 64) :: b64_encode url r.
Proof. reflexivity. Qed.

Lemma dq_zero url s : b64_decode_quads url O s = None.
Proof. reflexivity. Qed.

Lemma dq_nil url f : b64_decode_quads url (S f) [] = Some [].
Proof. reflexivity. Qed.

Lemma dq_last url f c1 c2 p1 p2 :
  b64_decode_quads url (S f) [c1; c2; p1; p2] =
  match dec_char url c1, dec_char url c2 with
  | Some n1, Some n2 =>
      if Byte.eqb p1 pad then
        if Byte.eqb p2 pad then Some [byteN (n1 * 4 + n2 / 16)] else None
      else match dec_char url p1 with
           | Some n3 =>
               if Byte.eqb p2 pad
               then Some [byteN (n1 * 4 + n2 / 16); byteN ((n2 mod 16) * 16 + n3 / 4)]
               else match dec_char url p2 with
                    | Some n4 => Some [byteN (n1 * 4 + n2 / 16); byteN ((n2 mod 16) * 16 + n3 / 4);
                                       byteN ((n3 mod 4) * 64 + n4)]
                    | None => None
                    end
           | None => None
           end
  | _, _ => None
  end.
Proof. reflexivity. Qed.

Lemma dq_more url f c1 c2 c3 c4 c5 r :
  b64_decode_quads url (S f) (c1 :: c2 :: c3 :: c4 :: c5 :: r) =
  match dec_char url c1, dec_char url c2, dec_char url c3, dec_char url c4 with
  | Some n1, Some n2, Some n3, Some n4 =>
      match b64_decode_quads url f (c5 :: r) with
      | Some t => Some (byteN (n1 * 4 + n2 / 16) :: byteN ((n2 mod 16) * 16 + n3 / 4) ::
                        byteN ((n3 mod 4) * 64 + n4) :: t)
      | None => None
      end
  | _, _, _, _ => None
  end.
Proof. reflexivity. Qed.

(* A full (unpadded) group followed by a decodable rest, whether or not the rest is empty:
   this hides the overlap between the two 4-character patterns of b64_decode_quads. *)
Lemma quads_step url f c1 c2 c3 c4 r n1 n2 n3 n4 t :
  dec_char url c1 = Some n1 -> dec_char url c2 = Some n2 ->
  dec_char url c3 = Some n3 -> dec_char url c4 = Some n4 ->
  Byte.eqb c3 pad = false -> Byte.eqb c4 pad = false ->
  b64_decode_quads url f r = Some t ->
  b64_decode_quads url (S f) (c1 :: c2 :: c3 :: c4 :: r) =
  Some (byteN (n1 * 4 + n2 / 16) :: byteN ((n2 mod 16) * 16 + n3 / 4) ::
        byteN ((n3 mod 4) * 64 + n4) :: t).
Proof.
  intros H1 H2 H3 H4 Hp3 Hp4 Hr.
  destruct r as [|c5 r'].
  - destruct f as [|f'].
    + rewrite dq_zero in Hr. discriminate Hr.
    + rewrite dq_nil in Hr. injection Hr as Ht. subst t.
      rewrite dq_last, H1, H2, Hp3, H3, Hp4, H4. reflexivity.
  - rewrite dq_more, H1, H2, H3, H4, Hr. reflexivity.
Qed.

(* ---------- induction three bytes at a time ---------- *)

Lemma bytes_ind3 (P : bytes -> Prop) :
  P [] -> (forall a, P [a]) -> (forall a b, P [a; b]) ->
  (forall a b c r, P r -> P (a :: b :: c :: r)) ->
  forall s, P s.
Proof.
  intros H0 H1 H2 H3.
  assert (Hall : forall s, P s /\ (forall a, P (a :: s)) /\ (forall a b, P (a :: b :: s))).
  { induction s as [|x s' IH].
    - split; [exact H0|]. split; [exact H1|exact H2].
    - destruct IH as [IHa [IHb IHc]].
      split; [apply IHb|]. split; [intros a; apply IHc|].
      intros a b. apply H3. exact IHa. }
  intros s. apply (Hall s).
Qed.

(* ---------- the encoder's alphabet ---------- *)

Lemma b64_encode_no_crlf : forall url s,
  forallb (fun c => negb (is_crlf c)) (b64_encode url s) = true.
Proof.
  intros url s. induction s as [|a|a b|a b c r IH] using bytes_ind3.
  - reflexivity.
  - pose proof (to_N_lt a) as Ha.
    rewrite enc1. cbn [forallb].
    rewrite !enc_char_not_crlf by ndiv_lia. reflexivity.
  - pose proof (to_N_lt a) as Ha. pose proof (to_N_lt b) as Hb.
    rewrite enc2. cbn [forallb].
    rewrite !enc_char_not_crlf by ndiv_lia. reflexivity.
  - pose proof (to_N_lt a) as Ha. pose proof (to_N_lt b) as Hb. pose proof (to_N_lt c) as Hc.
    rewrite enc3. cbn [forallb].
    rewrite !enc_char_not_crlf by ndiv_lia. rewrite IH. reflexivity.
Qed.

Lemma b64_encode_no_comma : forall url s,
  existsb (Byte.eqb ","%byte) (b64_encode url s) = false.
Proof.
  intros url s. induction s as [|a|a b|a b c r IH] using bytes_ind3.
  - reflexivity.
  - pose proof (to_N_lt a) as Ha.
    rewrite enc1. cbn [existsb].
    rewrite !enc_char_not_comma by ndiv_lia. reflexivity.
  - pose proof (to_N_lt a) as Ha. pose proof (to_N_lt b) as Hb.
    rewrite enc2. cbn [existsb].
    rewrite !enc_char_not_comma by ndiv_lia. reflexivity.
  - pose proof (to_N_lt a) as Ha. pose proof (to_N_lt b) as Hb. pose proof (to_N_lt c) as Hc.
    rewrite enc3. cbn [existsb].
    rewrite !enc_char_not_comma by ndiv_lia. rewrite IH. reflexivity.
Qed.

Lemma filter_all_true {A} (f : A -> bool) (l : list A) :
  forallb f l = true -> filter f l = l.
Proof.
  induction l as [|x l' IH]; intros Hall; [reflexivity|].
  cbn [forallb] in Hall. apply andb_true_iff in Hall as [Hx Hl].
  cbn [filter]. rewrite Hx, (IH Hl). reflexivity.
Qed.

(* ---------- round trip on CR/LF-free input, any sufficient fuel ---------- *)

Lemma eqb_pad_pad : Byte.eqb pad pad = true.
Proof. reflexivity. Qed.

Lemma b64_decode_quads_encode : forall url s fuel,
  (length (b64_encode url s) < fuel)%nat ->
  b64_decode_quads url fuel (b64_encode url s) = Some s.
Proof.
  intros url s. induction s as [|a|a b|a b c r IH] using bytes_ind3; intros fuel Hfuel.
  - destruct fuel as [|f]; [inversion Hfuel|]. rewrite enc0. apply dq_nil.
  - pose proof (to_N_lt a) as Ha.
    destruct fuel as [|f]; [inversion Hfuel|].
    rewrite enc1, dq_last.
    rewrite !dec_enc_char by ndiv_lia. rewrite eqb_pad_pad. cbv beta iota.
    assert (E1 : Byte.to_N a / 4 * 4 + Byte.to_N a mod 4 * 16 / 16 = Byte.to_N a) by ndiv_lia.
    rewrite E1, byteN_to_N. reflexivity.
  - pose proof (to_N_lt a) as Ha. pose proof (to_N_lt b) as Hb.
    destruct fuel as [|f]; [inversion Hfuel|].
    rewrite enc2, dq_last.
    rewrite !dec_enc_char by ndiv_lia.
    rewrite enc_char_not_pad by ndiv_lia. rewrite eqb_pad_pad. cbv beta iota.
    assert (E1 : Byte.to_N a / 4 * 4 + (Byte.to_N a mod 4 * 16 + Byte.to_N b / 16) / 16
                 = Byte.to_N a) by ndiv_lia.
    assert (E2 : (Byte.to_N a mod 4 * 16 + Byte.to_N b / 16) mod 16 * 16
                 + Byte.to_N b mod 16 * 4 / 4 = Byte.to_N b) by ndiv_lia.
    rewrite E1, E2, !byteN_to_N. reflexivity.
  - pose proof (to_N_lt a) as Ha. pose proof (to_N_lt b) as Hb. pose proof (to_N_lt c) as Hc.
    destruct fuel as [|f]; [inversion Hfuel|].
    rewrite enc3 in Hfuel |- *. cbn [length] in Hfuel.
    assert (Hf : (length (b64_encode url r) < f)%nat) by lia.
    rewrite (quads_step url f _ _ _ _ _
               (Byte.to_N a / 4)
               (Byte.to_N a mod 4 * 16 + Byte.to_N b / 16)
               (Byte.to_N b mod 16 * 4 + Byte.to_N c / 64)
               (Byte.to_N c mod 64) r).
    + assert (E1 : Byte.to_N a / 4 * 4 + (Byte.to_N a mod 4 * 16 + Byte.to_N b / 16) / 16
                   = Byte.to_N a) by ndiv_lia.
      assert (E2 : (Byte.to_N a mod 4 * 16 + Byte.to_N b / 16) mod 16 * 16
                   + (Byte.to_N b mod 16 * 4 + Byte.to_N c / 64) / 4 = Byte.to_N b) by ndiv_lia.
      assert (E3 : (Byte.to_N b mod 16 * 4 + Byte.to_N c / 64) mod 4 * 64 + Byte.to_N c mod 64
                   = Byte.to_N c) by ndiv_lia.
      rewrite E1, E2, E3, !byteN_to_N. reflexivity.
    + apply dec_enc_char; ndiv_lia.
    + apply dec_enc_char; ndiv_lia.
    + apply dec_enc_char; ndiv_lia.
    + apply dec_enc_char; ndiv_lia.
    + apply enc_char_not_pad; ndiv_lia.
    + apply enc_char_not_pad; ndiv_lia.
    + apply IH. exact Hf.
Qed.

(* ---------- main results ---------- *)

Theorem b64_decode_encode : forall url s, b64_decode url (b64_encode url s) = Some s.
Proof.
  intros url s. unfold b64_decode. cbv zeta.
  rewrite (filter_all_true _ _ (b64_encode_no_crlf url s)).
  apply b64_decode_quads_encode. apply Nat.lt_succ_diag_r.
Qed.

Corollary b64_encode_inj : forall url a b, b64_encode url a = b64_encode url b -> a = b.
Proof.
  intros url a b Heq.
  pose proof (b64_decode_encode url a) as Ha.
  rewrite Heq, b64_decode_encode in Ha.
  injection Ha as Hab. symmetry. exact Hab.
Qed.

Lemma b64std_dec_enc : forall s, b64std_dec (b64std_enc s) = Some s.
Proof. intros s. apply (b64_decode_encode false). Qed.

Lemma b64url_dec_enc : forall s, b64url_dec (b64url_enc s) = Some s.
Proof. intros s. apply (b64_decode_encode true). Qed.

Lemma b64std_enc_inj : forall a b, b64std_enc a = b64std_enc b -> a = b.
Proof. apply (b64_encode_inj false). Qed.

Lemma b64url_enc_inj : forall a b, b64url_enc a = b64url_enc b -> a = b.
Proof. apply (b64_encode_inj true). Qed.

Lemma b64std_enc_no_crlf : forall s, forallb (fun c => negb (is_crlf c)) (b64std_enc s) = true.
Proof. apply (b64_encode_no_crlf false). Qed.

Lemma b64url_enc_no_crlf : forall s, forallb (fun c => negb (is_crlf c)) (b64url_enc s) = true.
Proof. apply (b64_encode_no_crlf true). Qed.

Lemma b64std_enc_no_comma : forall s, existsb (Byte.eqb ","%byte) (b64std_enc s) = false.
Proof. apply (b64_encode_no_comma false). Qed.

Lemma b64url_enc_no_comma : forall s, existsb (Byte.eqb ","%byte) (b64url_enc s) = false.
Proof. apply (b64_encode_no_comma true). Qed.

Print Assumptions b64_decode_encode.
Print Assumptions b64_encode_inj.
Print Assumptions b64_encode_no_crlf.
Print Assumptions b64_encode_no_comma.
Print Assumptions b64std_dec_enc.
Print Assumptions b64url_dec_enc.
