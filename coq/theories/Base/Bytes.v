(* Byte strings and association lists: the value domain shared by every model file. *)
From Coq Require Export List Bool ZArith Lia.
From Coq Require Export Init.Byte.
Export ListNotations.

Definition bytes := list byte.

Fixpoint beqb (a b : bytes) : bool :=
  match a, b with
  | [], [] => true
  | x :: a', y :: b' => Byte.eqb x y && beqb a' b'
  | _, _ => false
  end.

Lemma beqb_refl a : beqb a a = true.
Proof. induction a as [|x a IH]; simpl; auto. rewrite IH, (Byte.byte_dec_lb eq_refl); reflexivity. Qed.

Lemma beqb_eq a b : beqb a b = true <-> a = b.
Proof.
  split.
  - revert b; induction a as [|x a IH]; destruct b as [|y b]; simpl; try congruence.
    intros H. apply andb_true_iff in H as [H1 H2].
    apply Byte.byte_dec_bl in H1. apply IH in H2. congruence.
  - intros ->. apply beqb_refl.
Qed.

Lemma beqb_neq a b : beqb a b = false <-> a <> b.
Proof.
  split.
  - intros H E. apply beqb_eq in E. congruence.
  - intros H. destruct (beqb a b) eqn:E; auto. apply beqb_eq in E. contradiction.
Qed.

Lemma beqb_sym a b : beqb a b = beqb b a.
Proof.
  destruct (beqb a b) eqn:E.
  - apply beqb_eq in E. subst. symmetry. apply beqb_refl.
  - symmetry. apply beqb_neq. apply beqb_neq in E. congruence.
Qed.

Definition bytes_dec (a b : bytes) : {a = b} + {a <> b}.
Proof. destruct (beqb a b) eqn:E; [left; apply beqb_eq; exact E | right; apply beqb_neq; exact E]. Defined.

Definition bempty (a : bytes) : bool := match a with [] => true | _ => false end.

(* association lists keyed by byte strings: first binding wins on lookup *)
Definition amap := list (bytes * bytes).

Fixpoint alookup (k : bytes) (m : amap) : option bytes :=
  match m with
  | [] => None
  | (k', v) :: r => if beqb k k' then Some v else alookup k r
  end.

Fixpoint aremove (k : bytes) (m : amap) : amap :=
  match m with
  | [] => []
  | (k', v) :: r => if beqb k k' then aremove k r else (k', v) :: aremove k r
  end.

Definition aput (k v : bytes) (m : amap) : amap := (k, v) :: aremove k m.

Definition aget (k : bytes) (m : amap) : bytes :=
  match alookup k m with Some v => v | None => [] end.

Definition ahas (k : bytes) (m : amap) : bool :=
  match alookup k m with Some _ => true | None => false end.

Fixpoint bmem (k : bytes) (l : list bytes) : bool :=
  match l with [] => false | x :: r => beqb k x || bmem k r end.

Lemma bmem_In k l : bmem k l = true <-> In k l.
Proof.
  induction l as [|x l IH]; simpl; [split; [discriminate|tauto]|].
  rewrite orb_true_iff, IH, beqb_eq. split; intros [H|H]; auto.
Qed.

Lemma alookup_aremove_eq k m : alookup k (aremove k m) = None.
Proof.
  induction m as [|[k' v] m IH]; simpl; auto.
  destruct (beqb k k') eqn:E; simpl; auto. rewrite E. exact IH.
Qed.

Lemma alookup_aremove_neq k k' m : k <> k' -> alookup k (aremove k' m) = alookup k m.
Proof.
  intros N. induction m as [|[k2 v] m IH]; simpl; auto.
  destruct (beqb k' k2) eqn:E.
  - apply beqb_eq in E. subst k2.
    destruct (beqb k k') eqn:E2; [apply beqb_eq in E2; contradiction|exact IH].
  - simpl. destruct (beqb k k2); auto.
Qed.

Lemma alookup_aput_eq k v m : alookup k (aput k v m) = Some v.
Proof. unfold aput; simpl. rewrite beqb_refl. reflexivity. Qed.

Lemma alookup_aput_neq k k' v m : k <> k' -> alookup k (aput k' v m) = alookup k m.
Proof.
  intros N. unfold aput; simpl.
  destruct (beqb k k') eqn:E; [apply beqb_eq in E; contradiction|].
  apply alookup_aremove_neq; exact N.
Qed.

(* extensional equality of maps, decided on the union of keys *)
Definition asub (a b : amap) : bool :=
  forallb (fun kv => match alookup (fst kv) a, alookup (fst kv) b with
                     | Some x, Some y => beqb x y
                     | None, None => true
                     | _, _ => false end) a.
Definition aeqb (a b : amap) : bool := asub a b && asub b a.

(* splitting / joining on a separator byte (Go strings.Split / strings.Join, one-byte separator) *)
Fixpoint bsplit (sep : byte) (s : bytes) : list bytes :=
  match s with
  | [] => [[]]
  | c :: r =>
    if Byte.eqb c sep then [] :: bsplit sep r
    else match bsplit sep r with
         | [] => [[c]]   (* unreachable: bsplit never returns [] *)
         | h :: t => (c :: h) :: t
         end
  end.

Fixpoint bjoin (sep : byte) (l : list bytes) : bytes :=
  match l with
  | [] => []
  | [x] => x
  | x :: r => x ++ sep :: bjoin sep r
  end.

Fixpoint bindex (c : byte) (s : bytes) : option nat :=
  match s with
  | [] => None
  | x :: r => if Byte.eqb x c then Some 0 else option_map S (bindex c r)
  end.

Fixpoint bprefix (p s : bytes) : bool :=
  match p, s with
  | [], _ => true
  | x :: p', y :: s' => Byte.eqb x y && bprefix p' s'
  | _, [] => false
  end.

Fixpoint bcontains (p s : bytes) : bool :=
  bprefix p s || match s with [] => false | _ :: r => bcontains p r end.

Definition bcount (c : byte) (s : bytes) : nat :=
  length (filter (Byte.eqb c) s).

Definition bmem_byte (c : byte) (s : bytes) : bool := existsb (Byte.eqb c) s.

Definition bempty_map (m : amap) : bool := match m with [] => true | _ => false end.

(* lexicographic order on byte strings (Go string comparison) *)
Fixpoint bytes_leb (a b : bytes) : bool :=
  match a, b with
  | [], _ => true
  | _ :: _, [] => false
  | x :: a', y :: b' =>
      if N.ltb (Byte.to_N x) (Byte.to_N y) then true
      else if N.ltb (Byte.to_N y) (Byte.to_N x) then false
      else bytes_leb a' b'
  end.

(* strings.TrimSpace on ASCII input (Go's unicode white space beyond ASCII is not modelled) *)
Definition is_go_space (b : byte) : bool := let n := Byte.to_N b in ((N.leb 9 n && N.leb n 13) || N.eqb n 32)%bool.
Fixpoint drop_space (s : bytes) : bytes := match s with c :: r => if is_go_space c then drop_space r else s | [] => [] end.
Definition trim_space (s : bytes) : bytes := rev (drop_space (rev (drop_space s))).
