(* Runs a history through the model, compares every step with the implementation's
   observation and evaluates the selected property predicate on the implementation's
   observation.  Result pairs: (step index, code); codes < 100 are correspondence facets
   (WorldBase.v), codes >= 100 are violated predicate clauses (Spec/Preds.v). *)
From AB Require Export Spec.Preds.
Open Scope Z_scope.

Definition pred_t := config -> ghost -> world -> action -> oracle -> iobs -> list Z.

Definition uid_now (j : amap) : option bytes := uid_in j.

(* which one-time value, if any, the implementation accepted in this step *)
Definition used_here (cfg : config) (w : world) (a : action) (i : iobs) : list (bytes * bytes) :=
  match a with
  | AReq r =>
      let before := uid_in (sess_of w (q_browser r)) in
      let after := uid_in (io_sess i) in
      if obytes_eq before after then [] else
      match after with
      | None => []
      | Some U =>
          let vals := values_of cfg r in
          match q_route r with
          | ROtpLogin => [(U, aget f_password vals)]
          | RTotpValidate | RSmsValidate =>
              if bempty (aget f_recovery_code vals) then [] else [(U, aget f_recovery_code vals)]
          | RApp _ _ _ _ _ true _ =>
              match alookup k_rm (cook_of w (q_browser r)) with Some c => [(U, c)] | None => [] end
          | _ => []
          end
      end
  | _ => []
  end.

Definition ghost_step (cfg : config) (g : ghost) (w : world) (a : action) (i : iobs) : ghost :=
  mkGhost (g_mails g ++ io_mails i) (g_smss g ++ io_smss i) (g_used g ++ used_here cfg w a i).

Section Hist.
Variable cfg : config.
Variable pred : pred_t.

Fixpoint check_steps (n : Z) (g : ghost) (w : world) (l : list (action * oracle * iobs)) : list (Z * Z) :=
  match l with
  | [] => []
  | (a, orc, i) :: r =>
      let '(w', o) := step XC cfg w a orc in
      let viol := map (fun c => (n, c)) (pred cfg g w a orc i) in
      match compare_step a w' o i with
      | [] => viol ++ check_steps (n + 1) (ghost_step cfg g w a i) w' r
      | cs => viol ++ map (fun c => (n, c)) cs
      end
  end.

Definition check_history (l : list (action * oracle * iobs)) : list (Z * Z) :=
  check_steps 0 ghost0 empty_world l.
End Hist.

Definition no_pred : pred_t := fun _ _ _ _ _ _ => [].
Definition pred_security : pred_t :=
  fun cfg g w a O i => pred_c01 cfg g w a O i ++ pred_c02 cfg g w a O i ++ pred_c03 cfg g w a O i ++ pred_c10 cfg g w a O i.
