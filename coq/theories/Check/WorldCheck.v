(* Runs a history through the model, compares every step with the implementation's
   observation and evaluates the selected property predicate on the implementation's
   observation.  Result pairs: (step index, code); codes < 100 are correspondence facets
   (WorldBase.v), codes >= 100 are violated predicate clauses (Spec/Preds.v). *)
From AB Require Export Spec.Preds.
Open Scope Z_scope.

Definition pred_t := config -> ghost -> world -> action -> oracle -> world -> iobs -> list Z.

Definition uid_now (j : amap) : option bytes := uid_in j.

(* which one-time value, if any, the implementation accepted in this step *)
Definition used_here (cfg : config) (w : world) (a : action) (i : iobs) : list (bytes * bytes) :=
  match a with
  | AReq r =>
      let before := uid_before cfg w r i in
      let after := uid_in (io_sess i) in
      (match q_route r, parked_here (sess_of w (q_browser r)) (io_sess i) with
       | ROtpLogin, Some U => [(U, aget f_password (values_of cfg r))]
       | _, _ => []
       end) ++
      (* the global remember wrapper consumed a cookie on a module route *)
      (match uid_in (sess_of w (q_browser r)), uid_before cfg w r i, alookup k_rm (cook_of w (q_browser r)) with
       | None, Some U, Some c => [(U, c)]
       | _, _, _ => []
       end) ++
      if obytes_eq before after then [] else
      match after with
      | None => []
      | Some U =>
          let vals := values_of cfg r in
          match q_route r with
          | ROtpLogin => [(U, aget f_password vals)]
          | RTotpValidate =>
              if bempty (aget f_recovery_code vals) then [(U, bs "totp:" ++ trim_space (aget f_code vals))]
              else [(U, aget f_recovery_code vals)]
          | RSmsValidate =>
              if bempty (aget f_recovery_code vals) then [] else [(U, aget f_recovery_code vals)]
          | RApp _ _ _ _ _ true _ =>
              match alookup k_rm (cook_of w (q_browser r)) with Some c => [(U, c)] | None => [] end
          | _ => []
          end
      end
  | _ => []
  end.

Definition ghost_step (cfg : config) (g : ghost) (w : world) (a : action) (i : iobs) : ghost :=
  mkGhost (g_mails g ++ io_mails i) (g_smss g ++ io_smss i ++ io_sms_tried i) (g_used g ++ used_here cfg w a i).

Definition resync (w' : world) (a : action) (i : iobs) : world :=
  let b := action_browser a in
  let w1 := w' <| w_st := mkStorage (map (fun u => (u_pid u, u)) (io_users i)) (io_rm i) |> in
  match a with
  | AReq _ => w1 <| w_sess := jar_set b (io_sess i) (w_sess w1) |> <| w_cook := jar_set b (io_cook i) (w_cook w1) |>
  | _ => w1
  end.

Section Hist.
Variable cfg : config.
Variable pred : pred_t.

Fixpoint check_steps (n : Z) (g : ghost) (w : world) (l : list (action * oracle * iobs)) : list (Z * Z) :=
  match l with
  | [] => []
  | (a, orc, i) :: r =>
      let '(w', o) := wstep XC cfg w a orc in
      let viol := map (fun c => (n, c)) (pred cfg g w a orc w' i) in
      match compare_step a w' o i with
      | [] => viol ++ check_steps (n + 1) (ghost_step cfg g w a i) w' r
      | cs =>
          (* the correspondence broke here: report it, then go on judging the implementation from ITS
             observed state (storage and the requesting browser's jars), so that a failing input that
             only shows up later in the history is still found *)
          viol ++ map (fun c => (n, c)) cs ++
          check_steps (n + 1) (ghost_step cfg g w a i) (resync w' a i) r
      end
  end.

Definition check_history (l : list (action * oracle * iobs)) : list (Z * Z) :=
  check_steps 0 ghost0 empty_world l.
End Hist.

Definition no_pred : pred_t := fun _ _ _ _ _ _ _ => [].
Definition pred_security : pred_t :=
  fun cfg g w a O w' i =>
    pred_c01 cfg g w a O w' i ++ pred_c02 cfg g w a O w' i ++ pred_c03 cfg g w a O w' i ++ pred_c04 g w a O w' i ++
    pred_c05 cfg g w a O w' i ++ pred_c06 cfg g w a O w' i ++ pred_c07 cfg g w a O w' i ++ pred_c09 cfg g w a O w' i ++
    pred_c10 cfg g w a O w' i ++ pred_c12 cfg g w a O w' i ++ pred_c13 cfg g w a O w' i ++ pred_c14 cfg g w a O w' i ++
    pred_c19 cfg g w a O w' i.

(* one selector per property (uniform type) *)
Definition p_c01 : pred_t := pred_c01.
Definition p_c02 : pred_t := pred_c02.
Definition p_c03 : pred_t := pred_c03.
Definition p_c04 : pred_t := fun _ => pred_c04.
Definition p_c05 : pred_t := pred_c05.
Definition p_c06 : pred_t := pred_c06.
Definition p_c07 : pred_t := pred_c07.
Definition p_c09 : pred_t := pred_c09.
Definition p_c10 : pred_t := pred_c10.
Definition p_c12 : pred_t := pred_c12.
Definition p_c13 : pred_t := pred_c13.
Definition p_c14 : pred_t := pred_c14.
Definition p_c19 : pred_t := pred_c19.
Definition p_c18 : pred_t := pred_c18.
Definition p_c08 : pred_t := pred_c08.
