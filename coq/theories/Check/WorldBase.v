(* Correspondence check for the request-level model: runs [step] on the harness's
   requests and oracles and compares, facet by facet, with what the harness observed
   on the real library.  Facet codes (second component of a result pair):
     10 response kind/status   11 location      12 page/data     13 session jar
     14 cookie jar             15 user records (151..158 per field group)  16 remember table 17 mails
     18 sms                    19 backend calls 20 panic flag    21 oracle starved
     22 error flag (admin operations)
     23 number of log lines    24 every value the model says a log line carries occurs in that line *)
From AB Require Export World.Step World.Exec.
Open Scope Z_scope.

Definition sx (x : bytes) : bytes := b64std_enc (sha XC x).   (* base64std(sha512 x) *)
Definition px (p : bytes) : bytes := pwhash XC p.

Record iobs := mkIobs {
  io_status : Z; io_loc : bytes; io_page : bytes; io_data : list (bytes * dval);
  io_panic : bool; io_err : bool;
  io_sess : amap; io_cook : amap;
  io_users : list user; io_rm : list (bytes * list bytes);
  io_mails : list mail; io_smss : list sms;
  io_calls : list callkind;
  io_logs : list bytes;         (* the log lines of this step, whole *)
  io_sms_tried : list sms       (* handed to the SMS gateway, which reported a failure (not in io_smss; ghost only) *)
}.

Definition near (a b : Z) : bool := Z.abs (a - b) <=? 2.
Definition beqb_list := list_eqb beqb.

Definition dval_match (m i : dval) : bool :=
  match m, i with
  | DOther, _ => true
  | DStr a, DStr b => beqb a b
  | DList a, DList b => beqb_list a b
  | _, _ => false
  end.
Fixpoint dlookup (k : bytes) (l : list (bytes * dval)) : option dval :=
  match l with [] => None | (k', v) :: r => if beqb k k' then Some v else dlookup k r end.
Definition data_match (m i : list (bytes * dval)) : bool :=
  forallb (fun kv => match dlookup (fst kv) i with Some v => dval_match (snd kv) v | None => false end) m &&
  forallb (fun kv => match dlookup (fst kv) m with Some _ => true | None => false end) i.

(* jars: time-valued keys are compared with tolerance *)
Definition timed_key (k : bytes) : bool := beqb k k_last_action || beqb k k_sms_last.
Definition jar_sub (a b : amap) : bool :=
  forallb (fun kv =>
    match alookup (fst kv) a, alookup (fst kv) b with
    | Some x, Some y =>
        if timed_key (fst kv) then
          match zparse x, zparse y with Some p, Some q => near p q | _, _ => beqb x y end
        else beqb x y
    | None, None => true
    | _, _ => false
    end) a.
Definition jar_eq (a b : amap) : bool := jar_sub a b && jar_sub b a.

(* per-user facets: 151 password, 152 confirm, 153 lock, 154 recover, 155 otps,
   156 two-factor, 157 oauth2, 158 identity/arbitrary *)
Definition user_facets (a b : user) : list Z :=
  (if beqb (u_password a) (u_password b) then [] else [151]) ++
  (if Bool.eqb (u_confirmed a) (u_confirmed b) && beqb (u_csel a) (u_csel b) && beqb (u_cver a) (u_cver b) then [] else [152]) ++
  (if (u_attempts a =? u_attempts b) && near (u_last a) (u_last b) && near (u_locked a) (u_locked b) then [] else [153]) ++
  (if beqb (u_rsel a) (u_rsel b) && beqb (u_rver a) (u_rver b) && near (u_rexp a) (u_rexp b) then [] else [154]) ++
  (if beqb (u_otps a) (u_otps b) then [] else [155]) ++
  (if beqb (u_totp a) (u_totp b) && beqb (u_totp_last a) (u_totp_last b) && beqb (u_sms a) (u_sms b) &&
      beqb (u_recovery a) (u_recovery b) then [] else [156]) ++
  (if beqb (u_ouid a) (u_ouid b) && beqb (u_oprov a) (u_oprov b) && beqb (u_otoken a) (u_otoken b) &&
      beqb (u_orefresh a) (u_orefresh b) && near (u_oexp a) (u_oexp b) then [] else [157]) ++
  (if beqb (u_pid a) (u_pid b) && beqb (u_email a) (u_email b) && aeqb (u_arb a) (u_arb b) then [] else [158]).

Definition user_eqb (a b : user) : bool := match user_facets a b with [] => true | _ => false end.

Fixpoint users_facets (a b : list user) : list Z :=
  match a, b with
  | [], [] => []
  | x :: a', y :: b' => user_facets x y ++ users_facets a' b'
  | _, _ => [15]          (* different number of records *)
  end.

Definition mail_eqb (a b : mail) : bool :=
  beqb_list (m_to a) (m_to b) && beqb (m_kind a) (m_kind b) && beqb (m_url a) (m_url b).
Definition sms_eqb (a b : sms) : bool := beqb (sm_to a) (sm_to b) && beqb (sm_text a) (sm_text b).

(* a Location we expect http.Redirect to leave untouched: absolute path of printable
   ASCII without dot segments or doubled slashes *)
Fixpoint plain_path_aux (s : bytes) (prev_slash : bool) : bool :=
  match s with
  | [] => true
  | c :: r =>
      let n := Byte.to_N c in
      if (N.ltb n 33 || N.ltb 126 n)%bool then false
      else if Byte.eqb c "?"%byte then forallb (fun d => let m := Byte.to_N d in negb (N.ltb m 33 || N.ltb 126 m)%bool) r
      else if Byte.eqb c "/"%byte then (if prev_slash then false else plain_path_aux r true)
      else if (Byte.eqb c "."%byte && prev_slash)%bool then false
      else plain_path_aux r false
  end.
Definition plain_path (s : bytes) : bool :=
  match s with c :: r => Byte.eqb c "/"%byte && plain_path_aux r true | [] => false end.

Definition resp_codes (m : option response) (i : iobs) : list Z :=
  match m with
  | None => if io_status i =? 0 then [] else [10]
  | Some (RespPage st page data) =>
      (if io_status i =? st then [] else [10]) ++
      (if beqb (io_page i) page && data_match data (io_data i) then [] else [12])
  | Some (RespRedirect302 loc) =>
      (if io_status i =? 302 then [] else [10]) ++
      (if negb (plain_path loc) || beqb (io_loc i) loc then [] else [11])
  | Some (RespRedirectAPI st loc failure) =>
      (if io_status i =? st then [] else [10]) ++
      (if beqb (io_page i) (bs "redirect") &&
          match dlookup (bs "location") (io_data i) with Some (DStr l) => beqb l loc | _ => false end &&
          match dlookup (bs "status") (io_data i) with
          | Some (DStr s) => beqb s (if failure then bs "failure" else bs "success") | _ => false end
       then [] else [11])
  | Some (RespStatus st) => if io_status i =? st then [] else [10]
  | Some (RespRaw st) => if io_status i =? st then [] else [10]
  end.

Definition callkind_list_eqb := list_eqb callkind_eqb.

Definition compare (b : bytes) (w' : world) (o : obs) (i : iobs) : list Z :=
  resp_codes (ob_resp o) i ++
  (if jar_eq (jar_get b (w_sess w')) (io_sess i) then [] else [13]) ++
  (if jar_eq (jar_get b (w_cook w')) (io_cook i) then [] else [14]) ++
  nodup Z.eq_dec (users_facets (map snd (s_users (w_st w'))) (io_users i)) ++
  (if list_eqb (fun x y => beqb (fst x) (fst y) && beqb_list (snd x) (snd y))
        (filter (fun x => negb (match snd x with [] => true | _ => false end)) (s_rm (w_st w')))
        (filter (fun x => negb (match snd x with [] => true | _ => false end)) (io_rm i)) then [] else [16]) ++
  (if list_eqb mail_eqb (ob_mails o) (io_mails i) then [] else [17]) ++
  (if list_eqb sms_eqb (ob_smss o) (io_smss i) then [] else [18]) ++
  (if callkind_list_eqb (ob_calls o) (io_calls i) then [] else [19]) ++
  (if Bool.eqb (ob_panic o) (io_panic i) then [] else [20]) ++
  (if ob_starved o then [21] else []) ++
  (if Bool.eqb (ob_err o) (io_err i) then [] else [22]) ++
  (if Nat.eqb (length (ob_logs o)) (length (io_logs i)) then [] else [23]) ++
  (if forallb (fun al => forallb (fun a => bcontains a (snd al)) (fst al)) (combine (ob_logs o) (io_logs i)) then [] else [24]).

Definition action_browser (a : action) : bytes :=
  match a with AReq r => q_browser r | APlant b _ _ => b | ASetJar _ b _ => b | _ => [] end.
Definition is_req (a : action) : bool := match a with AReq _ => true | _ => false end.

(* the error flag is only observable for administrative operations *)
Definition compare_step (a : action) (w' : world) (o : obs) (i : iobs) : list Z :=
  filter (fun c => negb (is_req a && (c =? 22))) (compare (action_browser a) w' o i).

(* history knowledge the predicates may use: everything the implementation has sent
   so far (before the step under judgement), and which one-time secrets it has accepted *)
Record ghost := mkGhost {
  g_mails : list mail;
  g_smss : list sms;
  g_used : list (bytes * bytes)      (* (account, one-time value) accepted earlier *)
}.
Definition ghost0 := mkGhost [] [] [].
