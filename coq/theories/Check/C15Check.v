(* C15 correspondence / predicate evaluation on harness cases:
   code 2 = the implementation sent the browser to a location the browser spec classifies as
            another site (violation, with the return-target string as failing input);
   code 1 = the location is none of the values the model allows (default, the accepted
            target, its net/http rewrite). *)
From AB Require Import Spec.Browser.
Open Scope Z_scope.

(* [k_optional]: the flow hands the value over where the library is free to ignore it (an earlier step of a
   two-step login, the JSON body in API mode): the location is the default, or the guarded value *)
Record c15_case := { k_api : bool; k_redir : bytes; k_status : Z; k_loc : bytes; k_default : bytes; k_suffix : bytes;
                     k_optional : bool }.

Definition c15_cands_for (c : c15_case) (redir : bytes) : list bytes :=
  let t := redirect_target redir (k_default c) true ++ k_suffix c in
  if k_api c then [t] else [t; hex_escape_non_ascii t; http_redirect_rewrite t].
Definition c15_candidates (c : c15_case) : list bytes :=
  c15_cands_for c (k_redir c) ++ (if k_optional c then c15_cands_for c [] else []).

Definition c15_check (id : Z) (c : c15_case) : list (Z * Z) :=
  (if bmem (k_loc c) (c15_candidates c) then [] else [(id, 1)]) ++
  (if same_site (k_loc c) then [] else [(id, 2)]).

(* what the spec says about a list of strings (for the cross-check against Node) *)
Definition classify_all (l : list bytes) : list bool := map same_site l.
