(* evaluation of the rule / validator model on the cases of the harness suite "rules" *)
From AB Require Import Model.ClientState Model.Rules.
Open Scope Z_scope.

Record rules_case := {
  rc_rules : list (rule * option (list rcls));   (* a rule, and Go's rune classes of its value when that is not ASCII *)
  rc_pairs : list (bytes * bytes);
  rc_vals : amap;
  rc_errs : list (bytes * rerr);                 (* observed: rule errors in order *)
  rc_confirm : list bytes                        (* observed: confirm-field errors in order *)
}.

Definition rerr_eqb (a b : rerr) : bool :=
  match a, b with
  | EBlank, EBlank | EMatch, EMatch | ELength, ELength | ELetters, ELetters | EUpper, EUpper
  | ELower, ELower | ENumeric, ENumeric | ESymbols, ESymbols | EWhitespace, EWhitespace => true
  | _, _ => false
  end.

Definition model_errs (c : rules_case) : list (bytes * rerr) :=
  flat_map (fun rc =>
    let r := fst rc in
    let v := aget (r_field r) (rc_vals c) in
    map (fun e => (r_field r, e))
        (rule_errors r v (match snd rc with Some l => l | None => ascii_classes v end))) (rc_rules c).

Definition all_ascii (c : rules_case) : bool := forallb (fun rc => match snd rc with None => true | Some _ => false end) (rc_rules c).

(* 1: rule errors differ; 2: confirm-field errors differ; 3: (ASCII cases) [validate] as the handlers
   call it disagrees with the per-rule evaluation *)
Definition rules_check (id : Z) (c : rules_case) : list (Z * Z) :=
  (if list_eqb (fun a b => beqb (fst a) (fst b) && rerr_eqb (snd a) (snd b)) (model_errs c) (rc_errs c) then [] else [(id, 1)]) ++
  (if list_eqb beqb (confirm_errors (rc_vals c) (rc_pairs c)) (rc_confirm c) then [] else [(id, 2)]) ++
  (if negb (all_ascii c) then [] else
   let v := validate (map fst (rc_rules c)) (rc_pairs c) (rc_vals c) in
   if list_eqb (fun a b => beqb (fst a) (fst b) && rerr_eqb (snd a) (snd b)) (fst v) (rc_errs c) &&
      list_eqb beqb (snd v) (rc_confirm c) &&
      Bool.eqb (valid (map fst (rc_rules c)) (rc_pairs c) (rc_vals c))
               (match rc_errs c, rc_confirm c with [], [] => true | _, _ => false end)
   then [] else [(id, 3)]).
