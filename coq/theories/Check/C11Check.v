(* Correspondence check for C11, evaluated by vm_compute on harness cases:
   code 1 = model trace differs from the implementation's trace (correspondence),
   code 2 = the property predicate is false on the implementation's trace (violation). *)
From AB Require Import Model.ClientState Spec.C11.

Record c11_case := { c_sess0 : amap; c_cook0 : amap; c_ops : list op; c_trace : list out }.

Definition c11_check (id : Z) (c : c11_case) : list (Z * Z) :=
  (if trace_eqb (cs_trace (c_sess0 c) (c_cook0 c) (c_ops c)) (c_trace c) then [] else [(id, 1%Z)]) ++
  (if c11_ok (c_sess0 c) (c_cook0 c) (c_ops c) (c_trace c) then [] else [(id, 2%Z)]).
